//! Loop-free Kani harnesses over full-domain integers (complete proofs, no unwinding bound needed)
//! and a small bounded harness for the label counter.

/// Discharges the assumption `axiom_halfword_bridge` of /verif/spec/a64_contracts.rs: the halfword
/// that `axcut2aarch64::code::load_immediate` extracts with an ARITHMETIC shift of the signed
/// literal equals the halfword of its two's-complement bit pattern (logical shift), for every i64
/// and each of the four shifts.  Loop-free, full domain: a complete proof.
#[cfg(kani)]
#[kani::proof]
fn halfword_bridge() {
    let x: i64 = kani::any();
    let k: i64 = kani::any();
    kani::assume(0 <= k && k < 4);
    let sh = k * 16;
    let exec_halfword = ((x >> sh) & 0xFFFF) as u16;
    let spec_halfword = ((x as u64) >> (sh as u64)) & 0xffff;
    assert!(exec_halfword as u64 == spec_halfword);
}

/// `!halfword` on u16, widened, complemented again and masked gives the halfword back (MOVN operand).
#[cfg(kani)]
#[kani::proof]
fn not16_roundtrip() {
    let h: u16 = kani::any();
    assert!((!((!h) as u64)) & 0xffff == h as u64);
}

/// A-LBL: successive calls of the REAL `fresh_label` return strictly increasing numbers, so labels
/// built from them are pairwise distinct (bounded: the private static counter cannot be made
/// symbolic, the harness observes 4 consecutive calls from the initial state).
#[cfg(kani)]
#[kani::proof]
fn fresh_label_increasing() {
    let a = axcut2backend::fresh_labels::fresh_label();
    let b = axcut2backend::fresh_labels::fresh_label();
    let c = axcut2backend::fresh_labels::fresh_label();
    let d = axcut2backend::fresh_labels::fresh_label();
    assert!(b == a + 1 && c == b + 1 && d == c + 1);
    assert!(a >= 1);
}

/// A-LBL, inductive step: the text of the REAL lang/axcut2backend/src/fresh_labels.rs (copied on every
/// run by the check, dropping only its `//!` module doc lines) is included here so that the harness can
/// start from an ARBITRARY counter value: one call returns old + 1 and stores it.  Together with the
/// initial value 0 this is a complete proof (no bound on the number of calls) that successive labels are
/// strictly increasing, hence pairwise distinct, as long as the counter does not wrap (2^64 calls).
#[cfg(kani)]
mod fresh_labels_extracted_harness {
    include!("fresh_labels_extracted.rs");

    #[kani::proof]
    fn fresh_label_inductive() {
        let v: usize = kani::any();
        kani::assume(v < usize::MAX);
        unsafe {
            COUNTER = v;
        }
        let a = fresh_label();
        assert!(a == v + 1);
        let c = unsafe { COUNTER };
        assert!(c == v + 1);
    }
}

// ---- total maps int -> u64 (register file, memory), as functions: read-over-write by beta reduction ----
pub struct Tot {
    pub f: spec_fn(int) -> u64,
}

impl Tot {
    #[verifier::inline]
    pub open spec fn spec_index(self, i: int) -> u64 { (self.f)(i) }

    pub open spec fn insert(self, k: int, v: u64) -> Tot {
        Tot { f: |x: int| if x == k { v } else { (self.f)(x) } }
    }

    pub open spec fn total(g: spec_fn(int) -> u64) -> Tot { Tot { f: g } }
}

// ---- spec/common.rs : wrapping 64-bit arithmetic shared by the three ISA specifications (trusted, T1) ----
pub open spec fn pow64() -> int { 0x1_0000_0000_0000_0000 }

/// two's-complement reinterpretation i64 -> u64
pub open spec fn i2u(v: i64) -> u64 {
    if v >= 0 { v as u64 } else { (v as int + pow64()) as u64 }
}

/// two's-complement reinterpretation u64 -> i64
pub open spec fn u2i(v: u64) -> i64 {
    if (v as int) < 0x8000_0000_0000_0000 { v as i64 } else { (v as int - pow64()) as i64 }
}

#[verifier::opaque]
pub open spec fn wrap(x: int) -> u64 { (x % pow64()) as u64 }

#[verifier::opaque]
pub open spec fn wadd(a: u64, b: u64) -> u64 { wrap(a as int + b as int) }

#[verifier::opaque]
pub open spec fn wsub(a: u64, b: u64) -> u64 { wrap(a as int - b as int) }

#[verifier::opaque]
pub open spec fn wmul(a: u64, b: u64) -> u64 { wrap(a as int * b as int) }

/// truncating (round-toward-zero) division on mathematical integers, b != 0
pub open spec fn tdiv(a: int, b: int) -> int {
    if a >= 0 {
        if b > 0 { a / b } else { -(a / (-b)) }
    } else {
        if b > 0 { -((-a) / b) } else { (-a) / (-b) }
    }
}

/// the source semantics of `/` is defined for these operands (no division by zero, no overflow)
pub open spec fn div_defined(a: u64, b: u64) -> bool {
    b != 0 && !(u2i(a) == -0x8000_0000_0000_0000 && u2i(b) == -1)
}

/// signed truncating 64-bit division (only meaningful under `div_defined`)
#[verifier::opaque]
pub open spec fn wdiv(a: u64, b: u64) -> u64 { wrap(tdiv(u2i(a) as int, u2i(b) as int)) }

/// remainder of truncating division: a - (a / b) * b, in wrapping arithmetic
pub open spec fn wrem(a: u64, b: u64) -> u64 { wsub(a, wmul(wdiv(a, b), b)) }

pub open spec fn slt(a: u64, b: u64) -> bool { u2i(a) < u2i(b) }
pub open spec fn sle(a: u64, b: u64) -> bool { u2i(a) <= u2i(b) }

/// address of a label: uninterpreted
pub uninterp spec fn label_addr(l: Seq<char>) -> u64;

pub broadcast proof fn lemma_wadd_comm(a: u64, b: u64)
    ensures #[trigger] wadd(a, b) == wadd(b, a),
{
    reveal(wadd);
}

pub broadcast proof fn lemma_wmul_comm(a: u64, b: u64)
    ensures #[trigger] wmul(a, b) == wmul(b, a),
{
    reveal(wmul);
    assert(a as int * b as int == b as int * a as int) by (nonlinear_arith);
}

/// small-offset pointer arithmetic does not wrap
pub broadcast proof fn lemma_wsub_small(a: u64, k: i64)
    requires 0 <= k <= a,
    ensures #[trigger] wsub(a, i2u(k)) == a - k,
{
    reveal(wsub);
    reveal(wrap);
}

pub broadcast proof fn lemma_wadd_small(a: u64, k: i64)
    requires 0 <= k, a + k < pow64(),
    ensures #[trigger] wadd(a, i2u(k)) == a + k,
{
    reveal(wadd);
    reveal(wrap);
}

pub broadcast proof fn lemma_wadd_zero(a: u64)
    ensures #[trigger] wadd(a, 0) == a,
{
    reveal(wadd);
    reveal(wrap);
}

pub broadcast proof fn lemma_i2u_cast0(x: i64)
    requires x >= 0,
    ensures #[trigger] i2u(x) == x as u64,
{
}

/// pointwise equality of total maps implies equality (function extensionality)
pub open spec fn tot_eq(a: Tot, b: Tot) -> bool { forall|i: int| #[trigger] a[i] == b[i] }

pub broadcast proof fn lemma_tot_eq(a: Tot, b: Tot)
    requires #[trigger] tot_eq(a, b),
    ensures a == b,
{
    assert(a.f =~= b.f);
}

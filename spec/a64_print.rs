// ---- C13: the save / call / restore sequence around the print runtime (AArch64) -------------------
// `sv` is the list of registers to evacuate (X0, X1, the link register when in use, caller-saved X4..X17
// holding live values; pairwise distinct), `fb` the first free callee-saved register (>= 18). The first
// `backups(fb, n)` registers of `sv` are parked in fb, fb+1, .. (< 29, the link register is never a backup),
// the others are stored below the stack pointer, which is lowered by an even number of words so that it
// stays 16-byte aligned.

pub open spec fn backups(fb: int, n: int) -> int {
    let avail = if fb <= 29 { 29 - fb } else { 0 };
    if n < avail { n } else { avail }
}

/// number of words the stack pointer is lowered by
pub open spec fn words(fb: int, n: int) -> int {
    let p = n - backups(fb, n);
    if p % 2 == 0 { p } else { p + 1 }
}

pub open spec fn saves_ok(fb: int, sv: Seq<usize>) -> bool {
    &&& 18 <= fb
    &&& sv.len() <= 17
    &&& forall|j: int| 0 <= j < sv.len() ==> (#[trigger] sv[j] <= 17 || sv[j] == 29)
    &&& forall|j: int, l: int| 0 <= j < l < sv.len() ==> sv[j] != sv[l]
}

/// r occurs in sv[lo..hi]
pub open spec fn in_range(sv: Seq<usize>, lo: int, hi: int, r: int) -> bool {
    exists|j: int| lo <= j < hi && #[trigger] sv[j] == r
}

/// state a after parking sv[0..k1] and, if `lowered`, lowering SP and storing sv[u..k2], relative to b
pub open spec fn saved_partial(a: St, b: St, fb: int, sv: Seq<usize>, k1: int, k2: int, lowered: bool) -> bool {
    let n = sv.len() as int;
    let u = backups(fb, n);
    let w = if lowered { words(fb, n) } else { 0 };
    &&& a.sp == b.sp - 8 * w
    &&& forall|j: int| 0 <= j < k1 ==> a.regs[fb + j] == b.regs[#[trigger] sv[j] as int]
    &&& forall|j: int| u <= j < k2 ==> a.mem[b.sp - 8 * (j - u + 1)] == b.regs[#[trigger] sv[j] as int]
    &&& forall|r: int| !(fb <= r < fb + k1) ==> #[trigger] a.regs[r] == b.regs[r]
    &&& forall|m: int| (m >= b.sp || m < b.sp - 8 * w) ==> #[trigger] a.mem[m] == b.mem[m]
    &&& a.ok == b.ok && a.calls == b.calls
}

/// postcondition of save_caller_save_registers
pub open spec fn saved(a: St, b: St, fb: int, sv: Seq<usize>) -> bool {
    let n = sv.len() as int;
    saved_partial(a, b, fb, sv, backups(fb, n), n, true)
}

/// state a after moving back sv[0..k1] and reloading sv[k2..n] (and raising SP if `raised`), relative to b
pub open spec fn restored_partial(a: St, b: St, fb: int, sv: Seq<usize>, k1: int, k2: int, raised: bool) -> bool {
    let n = sv.len() as int;
    let u = backups(fb, n);
    let w = words(fb, n);
    &&& a.sp == b.sp + (if raised { 8 * w } else { 0 })
    &&& forall|j: int| 0 <= j < k1 ==> a.regs[#[trigger] sv[j] as int] == b.regs[fb + j]
    &&& forall|j: int| k2 <= j < n ==> a.regs[#[trigger] sv[j] as int] == b.mem[b.sp + 8 * (w - 1 - (j - u))]
    &&& forall|r: int| !in_range(sv, 0, k1, r) && !in_range(sv, k2, n, r) ==> #[trigger] a.regs[r] == b.regs[r]
    &&& forall|m: int| #[trigger] a.mem[m] == b.mem[m]
    &&& a.ok == b.ok && a.calls == b.calls
}

/// postcondition of restore_caller_save_registers
pub open spec fn restored(a: St, b: St, fb: int, sv: Seq<usize>) -> bool {
    let n = sv.len() as int;
    restored_partial(a, b, fb, sv, backups(fb, n), backups(fb, n), true)
}

/// C13 for the print call: postcondition of print_i64 on the machine state. `a` after, `b` before.
pub open spec fn printed(a: St, b: St, ctx: Seq<ContextBinding>, source: Temporary, name: Seq<char>) -> bool {
    // exactly one external call, of the print routine, with the value of the source as argument
    &&& a.calls == b.calls.push((name, get(b, source)))
    // it happened with an aligned stack pointer
    &&& a.ok == b.ok
    // stack pointer, heap and free pointers
    &&& a.sp == b.sp && a.regs[0] == b.regs[0] && a.regs[1] == b.regs[1]
    // every live variable keeps its value: second temporary always, first temporary unless external
    &&& forall|i: int| 0 <= i < ctx.len() ==> get(a, #[trigger] tfp(2 * i + 1)) == get(b, tfp(2 * i + 1))
    &&& forall|i: int| 0 <= i < ctx.len() && !is_ext(ctx[i]) ==> get(a, #[trigger] tfp(2 * i)) == get(b, tfp(2 * i))
    // the whole stack frame at and above the stack pointer (all spill slots) is untouched
    &&& forall|m: int| m >= b.sp ==> #[trigger] a.mem[m] == b.mem[m]
}

/// every register of the evacuation list is back after save; <argument into X0>; call; restore
pub proof fn lemma_saved_registers_back(p: St, m: St, c: St, a: St, fb: int, sv: Seq<usize>, name: Seq<char>, arg: u64)
    requires
        saves_ok(fb, sv),
        aligned16(p.sp),
        saved(m, p, fb, sv),
        c == call_model(wr(m, Register::X(0), arg), name),
        aligned16(c.sp) ==> restored(a, c, fb, sv),
    ensures
        a.sp == p.sp,
        a.ok == p.ok,
        a.calls == p.calls.push((name, arg)),
        forall|j: int| 0 <= j < sv.len() ==> a.regs[#[trigger] sv[j] as int] == p.regs[sv[j] as int],
        // callee-saved registers that were not used as backups
        forall|r: int| (18 <= r < 29 && !(fb <= r < fb + backups(fb, sv.len() as int))) ==> #[trigger] a.regs[r] == p.regs[r],
        forall|x: int| x >= p.sp ==> #[trigger] a.mem[x] == p.mem[x],
{
    let n = sv.len() as int;
    let u = backups(fb, n);
    let w = words(fb, n);
    assert(m.sp == p.sp - 8 * w);
    assert(c.sp == m.sp);
    assert(aligned16(m.sp)) by {
        reveal(aligned16);
        assert(w % 2 == 0);
    }
    assert(c.ok == p.ok);
    assert(restored(a, c, fb, sv));
    assert forall|j: int| 0 <= j < sv.len() implies a.regs[#[trigger] sv[j] as int] == p.regs[sv[j] as int] by {
        if j < u {
            assert(a.regs[sv[j] as int] == c.regs[fb + j]);
            assert(c.regs[fb + j] == m.regs[fb + j]);
            assert(m.regs[fb + j] == p.regs[sv[j] as int]);
        } else {
            let x = c.sp + 8 * (w - 1 - (j - u));
            assert(a.regs[sv[j] as int] == c.mem[x]);
            assert(x == p.sp - 8 * (j - u + 1));
            assert(x >= c.sp);
            assert(c.mem[x] == m.mem[x]);
            assert(m.mem[x] == p.regs[sv[j] as int]);
        }
    }
    assert forall|r: int| (18 <= r < 29 && !(fb <= r < fb + u)) implies #[trigger] a.regs[r] == p.regs[r] by {
        assert(!in_range(sv, 0, u, r));
        assert(!in_range(sv, u, n, r));
        assert(a.regs[r] == c.regs[r]);
        assert(c.regs[r] == m.regs[r]);
    }
    assert forall|x: int| x >= p.sp implies #[trigger] a.mem[x] == p.mem[x] by {
        assert(a.mem[x] == c.mem[x]);
        assert(c.mem[x] == m.mem[x]);
    }
}

/// C13 for the print call, from the contracts of the pieces
pub proof fn lemma_print_sequence(b: St, p: St, m: St, c: St, a: St, ctx: Seq<ContextBinding>, source: Temporary, name: Seq<char>, fb: int, sv: Seq<usize>)
    requires
        ctx.len() <= 130,
        var_tmp(source),
        source matches Temporary::Register(Register::X(r)) ==> r < 2 * ctx.len() + 4,
        fb == (if 2 * ctx.len() + 4 > 18 { 2 * ctx.len() + 4 } else { 18 }),
        sv == a64_prefix(ctx.len() as int) + expected_saves(ctx, if ctx.len() < 7 { ctx.len() as int } else { 7 }),
        aligned16(b.sp),
        // before the evacuation: the argument is in the scratch register X2 if it was spilled; nothing else changed
        p.sp == b.sp && p.ok == b.ok && p.calls == b.calls,
        forall|r: int| r != 2 ==> #[trigger] p.regs[r] == b.regs[r],
        forall|x: int| #[trigger] p.mem[x] == b.mem[x],
        source is Spill ==> p.regs[2] == get(b, source),
        aligned16(p.sp) ==> saved(m, p, fb, sv),
        c == call_model(wr(m, Register::X(0), match source { Temporary::Register(r) => rd(m, r), Temporary::Spill(_) => m.regs[2] }), name),
        aligned16(c.sp) ==> restored(a, c, fb, sv),
    ensures
        printed(a, b, ctx, source, name),
{
    let k = if ctx.len() < 7 { ctx.len() as int } else { 7 };
    lemma_expected_saves(ctx, k);
    lemma_a64_prefix(ctx, k);
    lemma_a64_saves_distinct(ctx, k);
    let e = expected_saves(ctx, k);
    assert(saves_ok(fb, sv));
    let arg = match source { Temporary::Register(r) => rd(m, r), Temporary::Spill(_) => m.regs[2] };
    lemma_saved_registers_back(p, m, c, a, fb, sv, name, arg);
    let u = backups(fb, sv.len() as int);
    assert(arg == get(b, source));
    assert(sv.contains(0usize) && sv.contains(1usize));
    let w0 = choose|w: int| 0 <= w < sv.len() && sv[w] == 0usize;
    assert(a.regs[sv[w0] as int] == p.regs[sv[w0] as int]);
    let w1 = choose|w: int| 0 <= w < sv.len() && sv[w] == 1usize;
    assert(a.regs[sv[w1] as int] == p.regs[sv[w1] as int]);
    assert forall|i: int| 0 <= i < ctx.len() implies get(a, #[trigger] tfp(2 * i + 1)) == get(b, tfp(2 * i + 1)) by {
        if i < 7 {
            assert(e.contains(snd_reg(i)));
            assert(sv.contains(snd_reg(i)));
            let w = choose|w: int| 0 <= w < sv.len() && sv[w] == snd_reg(i);
            assert(a.regs[sv[w] as int] == p.regs[sv[w] as int]);
        } else if i < 12 {
            let r = 2 * i + 5;
            assert(18 <= r < 29 && r < fb);
            assert(a.regs[r] == p.regs[r]);
        } else if i == 12 {
            assert(sv.contains(29usize));
            let w = choose|w: int| 0 <= w < sv.len() && sv[w] == 29usize;
            assert(a.regs[sv[w] as int] == p.regs[sv[w] as int]);
        } else {
        }
    }
    assert forall|i: int| 0 <= i < ctx.len() && !is_ext(ctx[i]) implies get(a, #[trigger] tfp(2 * i)) == get(b, tfp(2 * i)) by {
        if i < 7 {
            assert(e.contains(fst_reg(i)));
            assert(sv.contains(fst_reg(i)));
            let w = choose|w: int| 0 <= w < sv.len() && sv[w] == fst_reg(i);
            assert(a.regs[sv[w] as int] == p.regs[sv[w] as int]);
        } else if i < 13 {
            let r = 2 * i + 4;
            assert(18 <= r < 29 && r < fb);
            assert(a.regs[r] == p.regs[r]);
        } else {
        }
    }
}

// ---- registers evacuated around a call (C13) -----------------------------------------------------
pub open spec fn is_ext(b: ContextBinding) -> bool { b.chi == Chirality::Ext }

/// the list the save code is expected to build for the first k bindings: the second temporary of every
/// variable, and the first temporary too unless the variable is an integer (registers 4 + 2i, 5 + 2i)
pub open spec fn expected_saves(ctx: Seq<ContextBinding>, k: int) -> Seq<usize>
    decreases k,
{
    if k <= 0 {
        Seq::empty()
    } else {
        let p = expected_saves(ctx, k - 1);
        if is_ext(ctx[k - 1]) { p.push((4 + 2 * (k - 1) + 1) as usize) } else { p.push((4 + 2 * (k - 1)) as usize).push((4 + 2 * (k - 1) + 1) as usize) }
    }
}

/// register of the second / first temporary of the variable at environment position i
pub open spec fn snd_reg(i: int) -> usize { (2 * i + 5) as usize }
pub open spec fn fst_reg(i: int) -> usize { (2 * i + 4) as usize }

pub proof fn lemma_expected_saves(ctx: Seq<ContextBinding>, k: int)
    requires 0 <= k <= ctx.len(), k <= 1000,
    ensures
        forall|i: int| 0 <= i < k ==> expected_saves(ctx, k).contains(#[trigger] snd_reg(i)),
        forall|i: int| 0 <= i < k && !is_ext(ctx[i]) ==> expected_saves(ctx, k).contains(#[trigger] fst_reg(i)),
        forall|j: int| 0 <= j < expected_saves(ctx, k).len() ==> 4 <= #[trigger] expected_saves(ctx, k)[j] < 4 + 2 * k,
        forall|j: int, l: int| 0 <= j < l < expected_saves(ctx, k).len() ==> expected_saves(ctx, k)[j] < expected_saves(ctx, k)[l],
        expected_saves(ctx, k).len() <= 2 * k,
    decreases k,
{
    if k > 0 {
        lemma_expected_saves(ctx, k - 1);
        let p = expected_saves(ctx, k - 1);
        let e = expected_saves(ctx, k);
        let a = (4 + 2 * (k - 1)) as usize;
        let b = (4 + 2 * (k - 1) + 1) as usize;
        if is_ext(ctx[k - 1]) {
            assert(e == p.push(b));
            assert(e[e.len() - 1] == b);
            assert forall|i: int| 0 <= i < k implies e.contains(#[trigger] snd_reg(i)) by {
                if i < k - 1 {
                    assert(p.contains(snd_reg(i)));
                    let w = choose|w: int| 0 <= w < p.len() && p[w] == snd_reg(i);
                    assert(e[w] == snd_reg(i));
                } else {
                    assert(e[e.len() - 1] == snd_reg(i));
                }
            }
            assert forall|i: int| 0 <= i < k && !is_ext(ctx[i]) implies e.contains(#[trigger] fst_reg(i)) by {
                assert(p.contains(fst_reg(i)));
                    let w = choose|w: int| 0 <= w < p.len() && p[w] == fst_reg(i);
                assert(e[w] == fst_reg(i));
            }
        } else {
            assert(e == p.push(a).push(b));
            assert(e[e.len() - 1] == b && e[e.len() - 2] == a);
            assert forall|i: int| 0 <= i < k implies e.contains(#[trigger] snd_reg(i)) by {
                if i < k - 1 {
                    assert(p.contains(snd_reg(i)));
                    let w = choose|w: int| 0 <= w < p.len() && p[w] == snd_reg(i);
                    assert(e[w] == snd_reg(i));
                } else {
                    assert(e[e.len() - 1] == snd_reg(i));
                }
            }
            assert forall|i: int| 0 <= i < k && !is_ext(ctx[i]) implies e.contains(#[trigger] fst_reg(i)) by {
                if i < k - 1 {
                    assert(p.contains(fst_reg(i)));
                    let w = choose|w: int| 0 <= w < p.len() && p[w] == fst_reg(i);
                    assert(e[w] == fst_reg(i));
                } else {
                    assert(e[e.len() - 2] == fst_reg(i));
                }
            }
        }
    }
}

/// X0, X1 always; X(29) (the link register) when the register file is full
pub open spec fn a64_prefix(len: int) -> Seq<usize> {
    if 2 * len + 4 >= 30 { seq![0usize, 1usize, 29usize] } else { seq![0usize, 1usize] }
}

pub proof fn lemma_a64_prefix(ctx: Seq<ContextBinding>, k: int)
    requires 0 <= k <= ctx.len(), k <= 1000,
    ensures
        (a64_prefix(ctx.len() as int) + expected_saves(ctx, k)).contains(0usize),
        (a64_prefix(ctx.len() as int) + expected_saves(ctx, k)).contains(1usize),
        2 * ctx.len() + 4 > 29 ==> (a64_prefix(ctx.len() as int) + expected_saves(ctx, k)).contains(29usize),
        forall|x: usize| expected_saves(ctx, k).contains(x) ==> #[trigger] (a64_prefix(ctx.len() as int) + expected_saves(ctx, k)).contains(x),
{
    let p = a64_prefix(ctx.len() as int);
    let e = expected_saves(ctx, k);
    assert((p + e)[0] == 0usize);
    assert((p + e)[1] == 1usize);
    if 2 * ctx.len() + 4 > 29 {
        assert((p + e)[2] == 29usize);
    }
    assert forall|x: usize| e.contains(x) implies #[trigger] (p + e).contains(x) by {
        let w = choose|w: int| 0 <= w < e.len() && e[w] == x;
        assert((p + e)[p.len() + w] == x);
    }
}

/// the evacuation list of the AArch64 backend: at most 17 registers, each caller-saved (X0..X17) or the link
/// register, pairwise distinct
pub proof fn lemma_a64_saves_distinct(ctx: Seq<ContextBinding>, k: int)
    requires 0 <= k <= ctx.len(), k <= 7,
    ensures
        (a64_prefix(ctx.len() as int) + expected_saves(ctx, k)).len() <= 17,
        forall|j: int| 0 <= j < (a64_prefix(ctx.len() as int) + expected_saves(ctx, k)).len() ==> (#[trigger] (a64_prefix(ctx.len() as int) + expected_saves(ctx, k))[j] <= 17 || (a64_prefix(ctx.len() as int) + expected_saves(ctx, k))[j] == 29),
        forall|j: int, l: int| 0 <= j < l < (a64_prefix(ctx.len() as int) + expected_saves(ctx, k)).len() ==> (a64_prefix(ctx.len() as int) + expected_saves(ctx, k))[j] != (a64_prefix(ctx.len() as int) + expected_saves(ctx, k))[l],
{
    lemma_expected_saves(ctx, k);
    let pre = a64_prefix(ctx.len() as int);
    let e = expected_saves(ctx, k);
    let sv = pre + e;
    assert(sv.len() == pre.len() + e.len());
    assert forall|j: int| 0 <= j < sv.len() implies (#[trigger] sv[j] <= 17 || sv[j] == 29) by {
        if j >= pre.len() { assert(sv[j] == e[j - pre.len()]); }
    }
    assert forall|j: int, l: int| 0 <= j < l < sv.len() implies sv[j] != sv[l] by {
        if j >= pre.len() { assert(sv[j] == e[j - pre.len()]); assert(sv[l] == e[l - pre.len()]); }
        else if l >= pre.len() { assert(sv[l] == e[l - pre.len()]); assert(4 <= sv[l] < 4 + 2 * k); }
    }
}

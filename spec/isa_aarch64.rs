// ---- spec/isa_aarch64.rs : AArch64 instruction semantics for the `Code` enum of axcut2aarch64 (trusted, T1) ----
// Written from the Arm A64 base-instruction pages the source links to (ddi0602/2025-03).
// `Register::X(n)` is the n-th allocatable register; the printer renders n >= 18 as X(n+1) because
// X18 is skipped, so X(18)..X(27) are the callee-saved X19..X28, X(28) is the frame pointer X29 and
// X(29) is the link register X30.  SP is kept as a mathematical integer (no wrap-around, T1).

pub struct St {
    pub regs: Tot,
    pub sp: int,
    pub mem: Tot,
    /// operands of the last CMP (A64 data-processing instructions used here do not set flags)
    pub fl: Option<(u64, u64)>,
    /// false after a misaligned SP-based access or call
    pub ok: bool,
    pub calls: Seq<(Seq<char>, u64)>,
}

pub open spec fn rd(s: St, r: Register) -> u64 {
    match r {
        Register::X(n) => s.regs[n as int],
        Register::SP => s.sp as u64,
        Register::XZR => 0,
    }
}

pub open spec fn wr(s: St, r: Register, v: u64) -> St {
    match r {
        Register::X(n) => St { regs: s.regs.insert(n as int, v), ..s },
        Register::SP => St { sp: v as int, ..s },
        Register::XZR => s,
    }
}

pub open spec fn imm(i: Immediate) -> u64 { i2u(i.val) }

/// effective address base + offset; SP-relative addresses use the integer stack pointer
pub open spec fn ea(s: St, b: Register, off: Immediate) -> int {
    match b {
        Register::SP => s.sp + off.val as int,
        _ => rd(s, b) as int + off.val as int,
    }
}

/// AArch64 requires SP to be 16-byte aligned whenever it is used as the base of a memory access
pub open spec fn base_ok(s: St, b: Register) -> bool {
    match b {
        Register::SP => aligned16(s.sp),
        _ => true,
    }
}

/// 16-byte alignment of the stack pointer; opaque so that emitters that do not move SP treat it as an atom
#[verifier::opaque]
pub open spec fn aligned16(x: int) -> bool { x % 16 == 0 }

pub open spec fn ldm(s: St, a: int) -> u64 { s.mem[a] }

/// AAPCS64: X0-X17 are caller-saved, BL overwrites the link register X30 (= X(29) here)
pub open spec fn caller_saved(n: int) -> bool { (0 <= n <= 17) || n == 29 }

pub uninterp spec fn havoc_reg(s: St, r: int) -> u64;
pub uninterp spec fn havoc_mem(s: St, a: int) -> u64;

pub open spec fn call_model(s: St, name: Seq<char>) -> St {
    St {
        regs: Tot::total(|r: int| if caller_saved(r) { havoc_reg(s, r) } else { s.regs[r] }),
        mem: Tot::total(|a: int| if a < s.sp { havoc_mem(s, a) } else { s.mem[a] }),
        fl: None,
        ok: s.ok && aligned16(s.sp),
        calls: s.calls.push((name, s.regs[0])),
        ..s
    }
}

/// SDIV: signed divide, rounding toward zero; division by zero yields 0, MIN / -1 yields MIN (no trap)
pub open spec fn sdiv(a: u64, b: u64) -> u64 {
    if b == 0 { 0 } else if !div_defined(a, b) { a } else { wdiv(a, b) }
}

pub open spec fn shl16(v: u64, sh: u64) -> u64 { v << sh }

pub open spec fn movk(old: u64, v: u64, sh: u64) -> u64 { (old & !(0xffffu64 << sh)) | (v << sh) }

pub open spec fn step(c: Code, s: St) -> St {
    match c {
        Code::ADD(d, a, b) => wr(s, d, wadd(rd(s, a), rd(s, b))),
        Code::ADDI(d, a, i) => match (d, a) {
            (Register::SP, Register::SP) => St { sp: s.sp + i.val as int, ..s },
            _ => wr(s, d, wadd(rd(s, a), imm(i))),
        },
        Code::SUB(d, a, b) => wr(s, d, wsub(rd(s, a), rd(s, b))),
        Code::SUBI(d, a, i) => match (d, a) {
            (Register::SP, Register::SP) => St { sp: s.sp - i.val as int, ..s },
            _ => wr(s, d, wsub(rd(s, a), imm(i))),
        },
        Code::MUL(d, a, b) => wr(s, d, wmul(rd(s, a), rd(s, b))),
        Code::SDIV(d, a, b) => wr(s, d, sdiv(rd(s, a), rd(s, b))),
        // MSUB Xd, Xn, Xm, Xa : Xd = Xa - Xn * Xm
        Code::MSUB(d, n, m, a) => wr(s, d, wsub(rd(s, a), wmul(rd(s, n), rd(s, m)))),
        Code::B(_) => s,
        Code::BR(_) => s,
        Code::BL(f) => call_model(s, f@),
        Code::ADR(d, l) => wr(s, d, label_addr(l@)),
        Code::MOVR(d, a) => wr(s, d, rd(s, a)),
        Code::MOVZ(d, i, sh) => wr(s, d, shl16(imm(i), imm(sh))),
        Code::MOVN(d, i, sh) => wr(s, d, !shl16(imm(i), imm(sh))),
        Code::MOVK(d, i, sh) => wr(s, d, movk(rd(s, d), imm(i), imm(sh))),
        Code::LDR(d, b, o) => St { ok: s.ok && base_ok(s, b), ..wr(s, d, ldm(s, ea(s, b, o))) },
        Code::STR(r, b, o) => St { mem: s.mem.insert(ea(s, b, o), rd(s, r)), ok: s.ok && base_ok(s, b), ..s },
        // LDP Xt1, Xt2, [Xn|SP], #imm : load pair, then base += imm
        Code::LDP_POST_INDEX(a, b, base, i) => {
            let addr = ea(s, base, Immediate { val: 0 });
            let s1 = wr(wr(s, a, ldm(s, addr)), b, ldm(s, addr + 8));
            match base {
                Register::SP => St { sp: s.sp + i.val as int, ok: s.ok && aligned16(s.sp), ..s1 },
                _ => wr(s1, base, wadd(rd(s, base), imm(i))),
            }
        },
        // STP Xt1, Xt2, [Xn|SP, #imm]! : base += imm, then store pair
        Code::STP_PRE_INDEX(a, b, base, i) => {
            match base {
                Register::SP => {
                    let nsp = s.sp + i.val as int;
                    St { sp: nsp, mem: s.mem.insert(nsp, rd(s, a)).insert(nsp + 8, rd(s, b)), ok: s.ok && aligned16(nsp), ..s }
                },
                _ => {
                    let nb = wadd(rd(s, base), imm(i));
                    St { mem: s.mem.insert(nb as int, rd(s, a)).insert(nb as int + 8, rd(s, b)), ..wr(s, base, nb) }
                },
            }
        },
        Code::CMPR(a, b) => St { fl: Some((rd(s, a), rd(s, b))), ..s },
        Code::CMPI(a, i) => St { fl: Some((rd(s, a), imm(i))), ..s },
        Code::BEQ(_) => s,
        Code::BNE(_) => s,
        Code::BLT(_) => s,
        Code::BLE(_) => s,
        Code::BGT(_) => s,
        Code::BGE(_) => s,
        Code::RET => s,
        Code::LAB(_) => s,
        Code::TEXT => s,
        Code::GLOBAL(_) => s,
        Code::COMMENT(_) => s,
    }
}

pub open spec fn branch_taken(c: Code, s: St) -> Option<bool> {
    match s.fl {
        None => None,
        Some((a, b)) => match c {
            Code::BEQ(_) => Some(a == b),
            Code::BNE(_) => Some(a != b),
            Code::BLT(_) => Some(slt(a, b)),
            Code::BLE(_) => Some(sle(a, b)),
            Code::BGT(_) => Some(slt(b, a)),
            Code::BGE(_) => Some(sle(b, a)),
            _ => None,
        },
    }
}

pub open spec fn branch_target(c: Code) -> Option<Seq<char>> {
    match c {
        Code::BEQ(l) => Some(l@),
        Code::BNE(l) => Some(l@),
        Code::BLT(l) => Some(l@),
        Code::BLE(l) => Some(l@),
        Code::BGT(l) => Some(l@),
        Code::BGE(l) => Some(l@),
        Code::B(l) => Some(l@),
        _ => None,
    }
}

/// a general-purpose register operand (not SP / XZR); numbers 0..29 print as X0..X17, X19..X30
/// instructions that transfer control (their data effect under `run` is the fall-through one)
pub open spec fn is_control(c: Code) -> bool {
    match c {
        Code::B(_) => true,
        Code::BR(_) => true,
        Code::BL(_) => true,
        Code::BEQ(_) => true,
        Code::BNE(_) => true,
        Code::BLT(_) => true,
        Code::BLE(_) => true,
        Code::BGT(_) => true,
        Code::BGE(_) => true,
        Code::RET => true,
        Code::LAB(_) => true,
        _ => false,
    }
}

pub open spec fn xreg_ok(r: Register) -> bool {
    match r { Register::X(n) => n < 30, _ => false }
}

/// register or SP (ADD/SUB immediate, load/store base)
pub open spec fn xsp_ok(r: Register) -> bool {
    match r { Register::X(n) => n < 30, Register::SP => true, Register::XZR => false }
}

pub open spec fn imm12(i: Immediate) -> bool { 0 <= i.val <= 4095 }
pub open spec fn imm16(i: Immediate) -> bool { 0 <= i.val <= 65535 }
pub open spec fn shift16(i: Immediate) -> bool { i.val == 0 || i.val == 16 || i.val == 32 || i.val == 48 }
pub open spec fn off_ldst(i: Immediate) -> bool { 0 <= i.val <= 32760 && i.val % 8 == 0 }
pub open spec fn off_pair(i: Immediate) -> bool { -512 <= i.val <= 504 && i.val % 8 == 0 }

/// operand ranges of the printed GAS instruction form (C14)
pub open spec fn encodable(c: Code) -> bool {
    match c {
        Code::ADD(d, a, b) => xreg_ok(d) && xreg_ok(a) && xreg_ok(b),
        Code::ADDI(d, a, i) => xsp_ok(d) && xsp_ok(a) && imm12(i),
        Code::SUB(d, a, b) => xreg_ok(d) && xreg_ok(a) && xreg_ok(b),
        Code::SUBI(d, a, i) => xsp_ok(d) && xsp_ok(a) && imm12(i),
        Code::MUL(d, a, b) => xreg_ok(d) && xreg_ok(a) && xreg_ok(b),
        Code::SDIV(d, a, b) => xreg_ok(d) && xreg_ok(a) && xreg_ok(b),
        Code::MSUB(d, n, m, a) => xreg_ok(d) && xreg_ok(n) && xreg_ok(m) && xreg_ok(a),
        Code::BR(r) => xreg_ok(r),
        Code::ADR(d, _) => xreg_ok(d),
        Code::MOVR(d, a) => xreg_ok(d) && xreg_ok(a),
        Code::MOVZ(d, i, sh) => xreg_ok(d) && imm16(i) && shift16(sh),
        Code::MOVN(d, i, sh) => xreg_ok(d) && imm16(i) && shift16(sh),
        Code::MOVK(d, i, sh) => xreg_ok(d) && imm16(i) && shift16(sh),
        Code::LDR(d, b, o) => xreg_ok(d) && xsp_ok(b) && off_ldst(o),
        // the zero register is a valid source of a store
        Code::STR(r, b, o) => (xreg_ok(r) || r is XZR) && xsp_ok(b) && off_ldst(o),
        Code::LDP_POST_INDEX(a, b, base, i) => xreg_ok(a) && xreg_ok(b) && a != b && xsp_ok(base) && off_pair(i),
        Code::STP_PRE_INDEX(a, b, base, i) => xreg_ok(a) && xreg_ok(b) && xsp_ok(base) && off_pair(i),
        Code::CMPR(a, b) => xreg_ok(a) && xreg_ok(b),
        Code::CMPI(a, i) => xreg_ok(a) && imm12(i),
        _ => true,
    }
}

/// size in bytes of the fixed-size jump used in jump tables: every A64 instruction is 4 bytes
pub open spec fn encoded_len_fixed_jump() -> int { 4 }

pub open spec fn run(code: Seq<Code>, s: St) -> St
    decreases code.len(),
{
    if code.len() == 0 { s } else { step(code.last(), run(code.drop_last(), s)) }
}

pub broadcast proof fn lemma_run_push(a: Seq<Code>, c: Code, s: St)
    ensures #[trigger] run(a.push(c), s) == step(c, run(a, s)),
{
    assert(a.push(c).drop_last() =~= a);
}

pub broadcast proof fn lemma_run_concat(a: Seq<Code>, b: Seq<Code>, s: St)
    ensures #[trigger] run(a + b, s) == run(b, run(a, s)),
    decreases b.len(),
{
    if b.len() == 0 {
        assert(a + b =~= a);
    } else {
        assert((a + b).drop_last() =~= a + b.drop_last());
        assert((a + b).last() == b.last());
        lemma_run_concat(a, b.drop_last(), s);
    }
}

// ---- temporaries ----
pub open spec fn SPILL_BYTES() -> int { 2048 }

pub open spec fn slot_off(k: int) -> int { SPILL_BYTES() - 8 * (k + 1) }

pub open spec fn slot_addr(s: St, k: int) -> int { s.sp + slot_off(k) }

pub open spec fn valid_tmp(t: Temporary) -> bool {
    match t {
        Temporary::Register(r) => xreg_ok(r),
        Temporary::Spill(k) => k.0 < 256,
    }
}

/// a temporary that can hold a variable: X4..X(29), or spill slots 1..255
pub open spec fn var_tmp(t: Temporary) -> bool {
    match t {
        Temporary::Register(r) => match r { Register::X(n) => 4 <= n < 30, _ => false },
        Temporary::Spill(k) => 1 <= k.0 < 256,
    }
}

pub open spec fn get(s: St, t: Temporary) -> u64 {
    match t {
        Temporary::Register(r) => rd(s, r),
        Temporary::Spill(k) => s.mem[slot_addr(s, k.0 as int)],
    }
}

pub open spec fn set(s: St, t: Temporary, v: u64) -> St {
    match t {
        Temporary::Register(r) => wr(s, r, v),
        Temporary::Spill(k) => St { mem: s.mem.insert(slot_addr(s, k.0 as int), v), ..s },
    }
}

/// equality of machine states except flags, the X registers in `rex` and the memory words in `mex`;
/// `ok` may only be lost when SP is misaligned
pub open spec fn eqv(a: St, b: St, rex: ISet<int>, mex: ISet<int>) -> bool {
    &&& forall|r: int| !rex.contains(r) ==> #[trigger] a.regs[r] == b.regs[r]
    &&& forall|m: int| !mex.contains(m) ==> #[trigger] a.mem[m] == b.mem[m]
    &&& a.sp == b.sp
    &&& (aligned16(b.sp) ==> a.ok == b.ok)
    &&& a.calls == b.calls
}

/// both scratch registers X2, X3
pub open spec fn eqv_t(a: St, b: St) -> bool { eqv(a, b, iset![2int, 3int], ISet::<int>::empty()) }

/// only the first scratch register X2
pub open spec fn eqv_t1(a: St, b: St) -> bool { eqv(a, b, iset![2int], ISet::<int>::empty()) }

/// only the second scratch register X3
pub open spec fn eqv_t2(a: St, b: St) -> bool { eqv(a, b, iset![3int], ISet::<int>::empty()) }

pub open spec fn eqv_0(a: St, b: St) -> bool { eqv(a, b, ISet::<int>::empty(), ISet::<int>::empty()) }

pub open spec fn appended(old: Seq<Code>, new: Seq<Code>) -> bool {
    &&& old.len() <= new.len()
    &&& forall|i: int| 0 <= i < old.len() ==> #[trigger] new[i] == old[i]
}

pub open spec fn appended_enc(old: Seq<Code>, new: Seq<Code>) -> bool {
    &&& old.len() <= new.len()
    &&& forall|i: int| 0 <= i < old.len() ==> #[trigger] new[i] == old[i]
    &&& forall|i: int| old.len() <= i < new.len() ==> encodable(#[trigger] new[i])
}

pub open spec fn all_enc(c: Seq<Code>) -> bool {
    forall|i: int| 0 <= i < c.len() ==> encodable(#[trigger] c[i])
}

/// extensional equality of machine states; `lemma_st_eq` turns it into `==`
pub open spec fn st_eq(a: St, b: St) -> bool {
    tot_eq(a.regs, b.regs) && tot_eq(a.mem, b.mem) && a.sp == b.sp && a.fl == b.fl && a.ok == b.ok && a.calls == b.calls
}

pub broadcast proof fn lemma_st_eq(a: St, b: St)
    requires #[trigger] st_eq(a, b),
    ensures a == b,
{
    lemma_tot_eq(a.regs, b.regs);
    lemma_tot_eq(a.mem, b.mem);
}

// ---- spec/x86_contracts.rs : vocabulary used by the x86-64 contract files ----
pub open spec fn T_TEMP() -> Temporary { Temporary::Register(Register(1)) }

/// `t := v`, nothing else changes except the scratch register rcx and the flags
pub open spec fn upd(o: Seq<Code>, n: Seq<Code>, s: St, t: Temporary, v: u64) -> bool {
    &&& eqv_t(run(n, s), set(run(o, s), t, v))
    &&& get(run(n, s), t) == v
}

pub open spec fn tn(n: TemporaryNumber) -> int {
    match n { TemporaryNumber::Fst => 0, TemporaryNumber::Snd => 1 }
}

/// System V AMD64 integer argument registers in this register numbering: rdi rsi rdx rcx r8 r9
pub open spec fn sysv_arg(k: int) -> Register {
    if k == 0 { Register(7) } else if k == 1 { Register(6) } else if k == 2 { Register(5) }
    else if k == 3 { Register(1) } else if k == 4 { Register(8) } else { Register(9) }
}

/// position -> temporary: 12 register positions (registers 4..15), then spill slots 1..255
pub open spec fn tfp(p: int) -> Temporary {
    if p + 4 < 16 { Temporary::Register(Register((p + 4) as usize)) } else { Temporary::Spill(Spill((p - 11) as usize)) }
}

pub proof fn lemma_tfp_injective(p: int, q: int)
    requires 0 <= p < 267, 0 <= q < 267, tfp(p) == tfp(q),
    ensures p == q,
{
}

/// index of the first binding whose variable has the given id
pub open spec fn first_index(b: Seq<ContextBinding>, id: usize) -> int
    decreases b.len(),
{
    if b.len() == 0 { 0 } else if b[0].var.id == id { 0 } else { 1 + first_index(b.subrange(1, b.len() as int), id) }
}

/// the last instruction is an indirect jump through a register holding `target`
pub open spec fn jumps_to(c: Code, s: St, target: u64) -> bool {
    match c {
        Code::JMP(r) => reg_ok(r) && rd(s, r) == target,
        _ => false,
    }
}

pub open spec fn is_fixed_jump(c: Code) -> bool { c is JMPLN }

pub open spec fn tmp_reg_set(t: Temporary) -> ISet<int> {
    match t {
        Temporary::Register(r) => iset![r.0 as int],
        Temporary::Spill(_) => ISet::<int>::empty(),
    }
}

/// operand discipline under which the idiv-based sequences of `div`/`rem` are correct: the target is
/// distinct from both sources and is neither rax nor rdx nor the scratch register, no source lives
/// in rax or in the scratch register (the call site passes second-slot temporaries of distinct variables)
pub open spec fn divrem_operands(t: Temporary, s1: Temporary, s2: Temporary) -> bool {
    &&& valid_tmp(t) && valid_tmp(s1) && valid_tmp(s2)
    &&& t != s1 && t != s2
    &&& t != Temporary::Register(Register(4)) && t != Temporary::Register(Register(5)) && t != T_TEMP()
    &&& s1 != Temporary::Register(Register(4)) && s2 != Temporary::Register(Register(4))
    &&& s1 != T_TEMP() && s2 != T_TEMP()
}

// ---- spec/x86_contracts.rs : vocabulary used by the x86-64 contract files ----
pub open spec fn T_TEMP() -> Temporary { Temporary::Register(Register(1)) }

/// `t := v`, nothing else changes except the scratch register rcx and the flags
pub open spec fn upd(o: Seq<Code>, n: Seq<Code>, s: St, t: Temporary, v: u64) -> bool {
    &&& eqv_t(run(n, s), set(run(o, s), t, v))
    &&& get(run(n, s), t) == v
}

pub open spec fn tn(n: TemporaryNumber) -> int {
    match n { TemporaryNumber::Fst => 0, TemporaryNumber::Snd => 1 }
}

/// System V AMD64 integer argument registers in this register numbering: rdi rsi rdx rcx r8 r9
pub open spec fn sysv_arg(k: int) -> Register {
    if k == 0 { Register(7) } else if k == 1 { Register(6) } else if k == 2 { Register(5) }
    else if k == 3 { Register(1) } else if k == 4 { Register(8) } else { Register(9) }
}

/// position -> temporary: 12 register positions (registers 4..15), then spill slots 1..255
pub open spec fn tfp(p: int) -> Temporary {
    if p + 4 < 16 { Temporary::Register(Register((p + 4) as usize)) } else { Temporary::Spill(Spill((p - 11) as usize)) }
}

pub proof fn lemma_tfp_injective(p: int, q: int)
    requires 0 <= p < 267, 0 <= q < 267, tfp(p) == tfp(q),
    ensures p == q,
{
}

/// index of the first binding whose variable has the given id
pub open spec fn first_index(b: Seq<ContextBinding>, id: usize) -> int
    decreases b.len(),
{
    if b.len() == 0 { 0 } else if b[0].var.id == id { 0 } else { 1 + first_index(b.subrange(1, b.len() as int), id) }
}

/// the first index is k if position k carries the id and no earlier position does
pub proof fn lemma_first_index(b: Seq<ContextBinding>, id: usize, k: int)
    requires
        0 <= k < b.len(),
        b[k].var.id == id,
        forall|j: int| 0 <= j < k ==> (#[trigger] b[j]).var.id != id,
    ensures
        first_index(b, id) == k,
    decreases k,
{
    if k > 0 {
        let t = b.subrange(1, b.len() as int);
        assert(t[k - 1] == b[k]);
        assert forall|j: int| 0 <= j < k - 1 implies (#[trigger] t[j]).var.id != id by {
            assert(t[j] == b[j + 1]);
        }
        lemma_first_index(t, id, k - 1);
        assert(b[0].var.id != id);
    }
}

/// the last instruction is an indirect jump through a register holding `target`
pub open spec fn jumps_to(c: Code, s: St, target: u64) -> bool {
    match c {
        Code::JMP(r) => reg_ok(r) && rd(s, r) == target,
        _ => false,
    }
}

pub open spec fn is_fixed_jump(c: Code) -> bool { c is JMPLN }

pub open spec fn tmp_reg_set(t: Temporary) -> ISet<int> {
    match t {
        Temporary::Register(r) => iset![r.0 as int],
        Temporary::Spill(_) => ISet::<int>::empty(),
    }
}

/// operand discipline under which the idiv-based sequences of `div`/`rem` are correct: the target is
/// distinct from both sources and is neither rax nor rdx nor the scratch register, no source lives
/// in rax or in the scratch register (the call site passes second-slot temporaries of distinct variables)
pub open spec fn divrem_operands(t: Temporary, s1: Temporary, s2: Temporary) -> bool {
    &&& valid_tmp(t) && valid_tmp(s1) && valid_tmp(s2)
    &&& t != s1 && t != s2
    &&& t != Temporary::Register(Register(4)) && t != Temporary::Register(Register(5)) && t != T_TEMP()
    &&& s1 != Temporary::Register(Register(4)) && s2 != Temporary::Register(Register(4))
    &&& s1 != T_TEMP() && s2 != T_TEMP()
}

// ---- registers evacuated around a call (C13) -----------------------------------------------------
pub open spec fn is_ext(b: ContextBinding) -> bool { b.chi == Chirality::Ext }

/// the list the save code is expected to build for the first k bindings: the second temporary of every
/// variable, and the first temporary too unless the variable is an integer (registers 4 + 2i, 5 + 2i)
pub open spec fn expected_saves(ctx: Seq<ContextBinding>, k: int) -> Seq<usize>
    decreases k,
{
    if k <= 0 {
        Seq::empty()
    } else {
        let p = expected_saves(ctx, k - 1);
        if is_ext(ctx[k - 1]) { p.push((4 + 2 * (k - 1) + 1) as usize) } else { p.push((4 + 2 * (k - 1)) as usize).push((4 + 2 * (k - 1) + 1) as usize) }
    }
}

/// register of the second / first temporary of the variable at environment position i
pub open spec fn snd_reg(i: int) -> usize { (2 * i + 5) as usize }
pub open spec fn fst_reg(i: int) -> usize { (2 * i + 4) as usize }

pub proof fn lemma_expected_saves(ctx: Seq<ContextBinding>, k: int)
    requires 0 <= k <= ctx.len(), k <= 1000,
    ensures
        forall|i: int| 0 <= i < k ==> expected_saves(ctx, k).contains(#[trigger] snd_reg(i)),
        forall|i: int| 0 <= i < k && !is_ext(ctx[i]) ==> expected_saves(ctx, k).contains(#[trigger] fst_reg(i)),
        forall|j: int| 0 <= j < expected_saves(ctx, k).len() ==> 4 <= #[trigger] expected_saves(ctx, k)[j] < 4 + 2 * k,
        forall|j: int, l: int| 0 <= j < l < expected_saves(ctx, k).len() ==> expected_saves(ctx, k)[j] < expected_saves(ctx, k)[l],
        expected_saves(ctx, k).len() <= 2 * k,
    decreases k,
{
    if k > 0 {
        lemma_expected_saves(ctx, k - 1);
        let p = expected_saves(ctx, k - 1);
        let e = expected_saves(ctx, k);
        let a = (4 + 2 * (k - 1)) as usize;
        let b = (4 + 2 * (k - 1) + 1) as usize;
        if is_ext(ctx[k - 1]) {
            assert(e == p.push(b));
            assert(e[e.len() - 1] == b);
            assert forall|i: int| 0 <= i < k implies e.contains(#[trigger] snd_reg(i)) by {
                if i < k - 1 {
                    assert(p.contains(snd_reg(i)));
                    let w = choose|w: int| 0 <= w < p.len() && p[w] == snd_reg(i);
                    assert(e[w] == snd_reg(i));
                } else {
                    assert(e[e.len() - 1] == snd_reg(i));
                }
            }
            assert forall|i: int| 0 <= i < k && !is_ext(ctx[i]) implies e.contains(#[trigger] fst_reg(i)) by {
                assert(p.contains(fst_reg(i)));
                    let w = choose|w: int| 0 <= w < p.len() && p[w] == fst_reg(i);
                assert(e[w] == fst_reg(i));
            }
        } else {
            assert(e == p.push(a).push(b));
            assert(e[e.len() - 1] == b && e[e.len() - 2] == a);
            assert forall|i: int| 0 <= i < k implies e.contains(#[trigger] snd_reg(i)) by {
                if i < k - 1 {
                    assert(p.contains(snd_reg(i)));
                    let w = choose|w: int| 0 <= w < p.len() && p[w] == snd_reg(i);
                    assert(e[w] == snd_reg(i));
                } else {
                    assert(e[e.len() - 1] == snd_reg(i));
                }
            }
            assert forall|i: int| 0 <= i < k && !is_ext(ctx[i]) implies e.contains(#[trigger] fst_reg(i)) by {
                if i < k - 1 {
                    assert(p.contains(fst_reg(i)));
                    let w = choose|w: int| 0 <= w < p.len() && p[w] == fst_reg(i);
                    assert(e[w] == fst_reg(i));
                } else {
                    assert(e[e.len() - 2] == fst_reg(i));
                }
            }
        }
    }
}

// ---- spec/isa_x86_64.rs : x86-64 instruction semantics for the `Code` enum of axcut2x86_64 (trusted, T1) ----
// Written from the Intel SDM pages the source links to (felixcloutier.com/x86/<mnemonic>).
// Data semantics of *falling through* an instruction; control transfer is not modelled here
// (see `branch_taken` for the decision of a conditional jump and `is_control`).
// Memory is a map from byte address (mathematical integer, no wrap-around) to 64-bit words; every
// access of the generated code is 8 bytes wide and `encodable` requires displacements that are
// multiples of 8, so distinct keys are disjoint words provided the bases are 8-aligned (T1).

pub struct St {
    pub regs: Tot,
    pub mem: Tot,
    /// operands of the last CMP, None after any flag-clobbering instruction
    pub fl: Option<(u64, u64)>,
    /// false after a fault (#DE) or a misaligned call
    pub ok: bool,
    /// external calls performed so far: (callee name, value of the first argument register)
    pub calls: Seq<(Seq<char>, u64)>,
}

pub open spec fn R_RSP() -> int { 0 }
pub open spec fn R_RCX() -> int { 1 }
pub open spec fn R_RBX() -> int { 2 }
pub open spec fn R_RBP() -> int { 3 }
pub open spec fn R_RAX() -> int { 4 }
pub open spec fn R_RDX() -> int { 5 }
pub open spec fn R_RSI() -> int { 6 }
pub open spec fn R_RDI() -> int { 7 }

pub open spec fn rd(s: St, r: Register) -> u64 { s.regs[r.0 as int] }

pub open spec fn wr(s: St, r: Register, v: u64) -> St {
    St { regs: s.regs.insert(r.0 as int, v), ..s }
}

pub open spec fn wr_noflags(s: St, r: Register, v: u64) -> St {
    St { regs: s.regs.insert(r.0 as int, v), fl: None, ..s }
}

pub open spec fn ea(s: St, b: Register, off: Immediate) -> int { rd(s, b) as int + off.val as int }

pub open spec fn ldm(s: St, a: int) -> u64 { s.mem[a] }

pub open spec fn stm(s: St, a: int, v: u64) -> St { St { mem: s.mem.insert(a, v), ..s } }

pub open spec fn stm_noflags(s: St, a: int, v: u64) -> St {
    St { mem: s.mem.insert(a, v), fl: None, ..s }
}

pub open spec fn imm(i: Immediate) -> u64 { i2u(i.val) }

/// caller-saved registers of the System V ABI in this register numbering:
/// rcx(1) rax(4) rdx(5) rsi(6) rdi(7) r8..r11
pub open spec fn caller_saved(r: int) -> bool {
    r == 1 || r == 4 || r == 5 || r == 6 || r == 7 || (8 <= r <= 11)
}

/// what an external call leaves in caller-saved register `r` / in stack word `a` below rsp: unknown
pub uninterp spec fn havoc_reg(s: St, r: int) -> u64;
pub uninterp spec fn havoc_mem(s: St, a: int) -> u64;

/// System V: at a CALL rsp must be 16-byte aligned (so that it is 8 mod 16 on entry of the callee);
/// the callee preserves rbx, rbp, rsp, r12-r15 and all memory at or above rsp, and may clobber
/// everything else (caller-saved registers, flags, the red zone / stack below rsp).
pub open spec fn call_model(s: St, name: Seq<char>) -> St {
    St {
        regs: Tot::total(
            |r: int| if caller_saved(r) { havoc_reg(s, r) } else { s.regs[r] },
        ),
        mem: Tot::total(
            |a: int| if a < s.regs[0] as int { havoc_mem(s, a) } else { s.mem[a] },
        ),
        fl: None,
        ok: s.ok && (s.regs[0] as int) % 16 == 0,
        calls: s.calls.push((name, s.regs[7])),
    }
}

/// IDIV r/m64: signed divide rdx:rax by the operand; quotient -> rax, remainder -> rdx; #DE on zero
/// divisor or quotient overflow. We model only the case the generated code produces, rdx:rax being
/// the sign extension of rax (after CQO): otherwise `ok` is cleared.
pub open spec fn idiv(s: St, d: u64) -> St {
    let a = s.regs[4];
    let sign_extended = s.regs[5] == (if u2i(a) < 0 { 0xffff_ffff_ffff_ffffu64 } else { 0u64 });
    St {
        regs: s.regs.insert(4, wdiv(a, d)).insert(5, wrem(a, d)),
        fl: None,
        ok: s.ok && sign_extended && div_defined(a, d),
        ..s
    }
}

pub open spec fn step(c: Code, s: St) -> St {
    match c {
        Code::ADD(a, b) => wr_noflags(s, a, wadd(rd(s, a), rd(s, b))),
        Code::ADDRM(r, b, o) => wr_noflags(s, r, wadd(rd(s, r), ldm(s, ea(s, b, o)))),
        Code::ADDMR(b, o, r) => stm_noflags(s, ea(s, b, o), wadd(ldm(s, ea(s, b, o)), rd(s, r))),
        Code::ADDI(r, i) => wr_noflags(s, r, wadd(rd(s, r), imm(i))),
        Code::ADDIM(b, o, i) => stm_noflags(s, ea(s, b, o), wadd(ldm(s, ea(s, b, o)), imm(i))),
        Code::SUB(a, b) => wr_noflags(s, a, wsub(rd(s, a), rd(s, b))),
        Code::SUBRM(r, b, o) => wr_noflags(s, r, wsub(rd(s, r), ldm(s, ea(s, b, o)))),
        Code::SUBMR(b, o, r) => stm_noflags(s, ea(s, b, o), wsub(ldm(s, ea(s, b, o)), rd(s, r))),
        Code::SUBI(r, i) => wr_noflags(s, r, wsub(rd(s, r), imm(i))),
        Code::IMUL(a, b) => wr_noflags(s, a, wmul(rd(s, a), rd(s, b))),
        Code::IMULRM(r, b, o) => wr_noflags(s, r, wmul(rd(s, r), ldm(s, ea(s, b, o)))),
        // `imul m64, r64` does not exist; it is given the obvious meaning here but is never `encodable`
        Code::IMULMR(b, o, r) => stm_noflags(s, ea(s, b, o), wmul(ldm(s, ea(s, b, o)), rd(s, r))),
        Code::IDIV(r) => idiv(s, rd(s, r)),
        Code::IDIVM(b, o) => idiv(s, ldm(s, ea(s, b, o))),
        Code::CQO => wr(s, Register(5), if u2i(s.regs[4]) < 0 { 0xffff_ffff_ffff_ffffu64 } else { 0u64 }),
        Code::JMP(_) => s,
        Code::JMPL(_) => s,
        Code::JMPLN(_) => s,
        Code::LEAL(r, l) => wr(s, r, label_addr(l@)),
        Code::MOV(a, b) => wr(s, a, rd(s, b)),
        Code::MOVS(r, b, o) => stm(s, ea(s, b, o), rd(s, r)),
        Code::MOVL(r, b, o) => wr(s, r, ldm(s, ea(s, b, o))),
        Code::MOVI(r, i) => wr(s, r, imm(i)),
        Code::MOVIM(b, o, i) => stm(s, ea(s, b, o), imm(i)),
        Code::CMP(a, b) => St { fl: Some((rd(s, a), rd(s, b))), ..s },
        Code::CMPRM(r, b, o) => St { fl: Some((rd(s, r), ldm(s, ea(s, b, o)))), ..s },
        Code::CMPMR(b, o, r) => St { fl: Some((ldm(s, ea(s, b, o)), rd(s, r))), ..s },
        Code::CMPI(r, i) => St { fl: Some((rd(s, r), imm(i))), ..s },
        Code::CMPIM(b, o, i) => St { fl: Some((ldm(s, ea(s, b, o)), imm(i))), ..s },
        Code::JEL(_) => s,
        Code::JNEL(_) => s,
        Code::JLL(_) => s,
        Code::JLEL(_) => s,
        Code::JGL(_) => s,
        Code::JGEL(_) => s,
        Code::PUSH(r) => {
            let sp = (s.regs[0] - 8) as u64;
            St { regs: s.regs.insert(0, sp), mem: s.mem.insert(sp as int, rd(s, r)), ok: s.ok && s.regs[0] >= 8, ..s }
        },
        Code::POP(r) => {
            let v = s.mem[s.regs[0] as int];
            St { regs: s.regs.insert(0, (s.regs[0] + 8) as u64).insert(r.0 as int, v), ok: s.ok && s.regs[0] + 8 < pow64(), ..s }
        },
        Code::CALL(f) => call_model(s, f@),
        Code::RET => s,
        Code::LAB(_) => s,
        Code::NOEXECSTACK => s,
        Code::TEXT => s,
        Code::GLOBAL(_) => s,
        Code::EXTERN(_) => s,
        Code::COMMENT(_) => s,
    }
}

/// decision of a conditional jump in state `s` (None: not a conditional jump, or flags undefined)
pub open spec fn branch_taken(c: Code, s: St) -> Option<bool> {
    match s.fl {
        None => None,
        Some((a, b)) => match c {
            Code::JEL(_) => Some(a == b),
            Code::JNEL(_) => Some(a != b),
            Code::JLL(_) => Some(slt(a, b)),
            Code::JLEL(_) => Some(sle(a, b)),
            Code::JGL(_) => Some(slt(b, a)),
            Code::JGEL(_) => Some(sle(b, a)),
            _ => None,
        },
    }
}

pub open spec fn branch_target(c: Code) -> Option<Seq<char>> {
    match c {
        Code::JEL(l) => Some(l@),
        Code::JNEL(l) => Some(l@),
        Code::JLL(l) => Some(l@),
        Code::JLEL(l) => Some(l@),
        Code::JGL(l) => Some(l@),
        Code::JGEL(l) => Some(l@),
        Code::JMPL(l) => Some(l@),
        Code::JMPLN(l) => Some(l@),
        _ => None,
    }
}

/// instructions that transfer control (their data effect under `run` is the fall-through one)
pub open spec fn is_control(c: Code) -> bool {
    match c {
        Code::JMP(_) => true,
        Code::JMPL(_) => true,
        Code::JMPLN(_) => true,
        Code::JEL(_) => true,
        Code::JNEL(_) => true,
        Code::JLL(_) => true,
        Code::JLEL(_) => true,
        Code::JGL(_) => true,
        Code::JGEL(_) => true,
        Code::CALL(_) => true,
        Code::RET => true,
        Code::LAB(_) => true,
        _ => false,
    }
}

pub open spec fn fits_i32(v: i64) -> bool { -0x8000_0000 <= v <= 0x7fff_ffff }

pub open spec fn reg_ok(r: Register) -> bool { r.0 < 16 }

pub open spec fn mem_ok(b: Register, o: Immediate) -> bool {
    reg_ok(b) && fits_i32(o.val) && o.val % 8 == 0
}

/// operand ranges of the printed NASM instruction form (C14)
pub open spec fn encodable(c: Code) -> bool {
    match c {
        Code::ADD(a, b) => reg_ok(a) && reg_ok(b),
        Code::ADDRM(r, b, o) => reg_ok(r) && mem_ok(b, o),
        Code::ADDMR(b, o, r) => reg_ok(r) && mem_ok(b, o),
        Code::ADDI(r, i) => reg_ok(r) && fits_i32(i.val),
        Code::ADDIM(b, o, i) => mem_ok(b, o) && fits_i32(i.val),
        Code::SUB(a, b) => reg_ok(a) && reg_ok(b),
        Code::SUBRM(r, b, o) => reg_ok(r) && mem_ok(b, o),
        Code::SUBMR(b, o, r) => reg_ok(r) && mem_ok(b, o),
        Code::SUBI(r, i) => reg_ok(r) && fits_i32(i.val),
        Code::IMUL(a, b) => reg_ok(a) && reg_ok(b),
        Code::IMULRM(r, b, o) => reg_ok(r) && mem_ok(b, o),
        Code::IMULMR(b, o, r) => false,
        Code::IDIV(r) => reg_ok(r),
        Code::IDIVM(b, o) => mem_ok(b, o),
        Code::CQO => true,
        Code::JMP(r) => reg_ok(r),
        Code::JMPL(_) => true,
        Code::JMPLN(_) => true,
        Code::LEAL(r, _) => reg_ok(r),
        Code::MOV(a, b) => reg_ok(a) && reg_ok(b),
        Code::MOVS(r, b, o) => reg_ok(r) && mem_ok(b, o),
        Code::MOVL(r, b, o) => reg_ok(r) && mem_ok(b, o),
        // mov r64, imm64 exists
        Code::MOVI(r, i) => reg_ok(r),
        // mov qword [m], imm32 (sign-extended) is the only store-immediate form
        Code::MOVIM(b, o, i) => mem_ok(b, o) && fits_i32(i.val),
        Code::CMP(a, b) => reg_ok(a) && reg_ok(b),
        Code::CMPRM(r, b, o) => reg_ok(r) && mem_ok(b, o),
        Code::CMPMR(b, o, r) => reg_ok(r) && mem_ok(b, o),
        Code::CMPI(r, i) => reg_ok(r) && fits_i32(i.val),
        Code::CMPIM(b, o, i) => mem_ok(b, o) && fits_i32(i.val),
        Code::PUSH(r) => reg_ok(r),
        Code::POP(r) => reg_ok(r),
        _ => true,
    }
}

/// size in bytes of the fixed-size jump used in jump tables: `jmp near rel32` = E9 cd
pub open spec fn encoded_len_fixed_jump() -> int { 5 }

pub open spec fn run(code: Seq<Code>, s: St) -> St
    decreases code.len(),
{
    if code.len() == 0 { s } else { step(code.last(), run(code.drop_last(), s)) }
}

pub broadcast proof fn lemma_run_push(a: Seq<Code>, c: Code, s: St)
    ensures #[trigger] run(a.push(c), s) == step(c, run(a, s)),
{
    assert(a.push(c).drop_last() =~= a);
}

pub proof fn lemma_run_empty(s: St)
    ensures run(Seq::<Code>::empty(), s) == s,
{
}

pub broadcast proof fn lemma_run_concat(a: Seq<Code>, b: Seq<Code>, s: St)
    ensures #[trigger] run(a + b, s) == run(b, run(a, s)),
    decreases b.len(),
{
    if b.len() == 0 {
        assert(a + b =~= a);
    } else {
        assert((a + b).drop_last() =~= a + b.drop_last());
        assert((a + b).last() == b.last());
        lemma_run_concat(a, b.drop_last(), s);
    }
}

// ---- temporaries ----
pub open spec fn SPILL_BYTES() -> int { 2048 }

pub open spec fn slot_off(k: int) -> int { SPILL_BYTES() - 8 * (k + 1) }

pub open spec fn slot_addr(s: St, k: int) -> int { s.regs[0] as int + slot_off(k) }

pub open spec fn valid_tmp(t: Temporary) -> bool {
    match t {
        Temporary::Register(r) => 1 <= r.0 < 16,
        Temporary::Spill(k) => k.0 < 256,
    }
}

/// a temporary that can hold a variable: not rsp/rcx/rbx/rbp, not the reserved spill slot 0
pub open spec fn var_tmp(t: Temporary) -> bool {
    match t {
        Temporary::Register(r) => 4 <= r.0 < 16,
        Temporary::Spill(k) => 1 <= k.0 < 256,
    }
}

pub open spec fn get(s: St, t: Temporary) -> u64 {
    match t {
        Temporary::Register(r) => s.regs[r.0 as int],
        Temporary::Spill(k) => s.mem[slot_addr(s, k.0 as int)],
    }
}

pub open spec fn set(s: St, t: Temporary, v: u64) -> St {
    match t {
        Temporary::Register(r) => St { regs: s.regs.insert(r.0 as int, v), ..s },
        Temporary::Spill(k) => St { mem: s.mem.insert(slot_addr(s, k.0 as int), v), ..s },
    }
}

/// equality of machine states except flags, the registers in `rex` and the memory words in `mex`
pub open spec fn eqv(a: St, b: St, rex: ISet<int>, mex: ISet<int>) -> bool {
    &&& forall|r: int| !rex.contains(r) ==> #[trigger] a.regs[r] == b.regs[r]
    &&& forall|m: int| !mex.contains(m) ==> #[trigger] a.mem[m] == b.mem[m]
    &&& a.ok == b.ok
    &&& a.calls == b.calls
}

/// the scratch register rcx only
pub open spec fn eqv_t(a: St, b: St) -> bool { eqv(a, b, iset![1int], ISet::<int>::empty()) }

/// nothing but flags
pub open spec fn eqv_0(a: St, b: St) -> bool { eqv(a, b, ISet::<int>::empty(), ISet::<int>::empty()) }

/// `new` extends `old` (pointwise form: friendlier to the solver than subrange equality)
pub open spec fn appended(old: Seq<Code>, new: Seq<Code>) -> bool {
    &&& old.len() <= new.len()
    &&& forall|i: int| 0 <= i < old.len() ==> #[trigger] new[i] == old[i]
}

/// `new` extends `old` and every appended instruction is encodable
pub open spec fn appended_enc(old: Seq<Code>, new: Seq<Code>) -> bool {
    &&& old.len() <= new.len()
    &&& forall|i: int| 0 <= i < old.len() ==> #[trigger] new[i] == old[i]
    &&& forall|i: int| old.len() <= i < new.len() ==> encodable(#[trigger] new[i])
}

pub open spec fn all_enc(c: Seq<Code>) -> bool {
    forall|i: int| 0 <= i < c.len() ==> encodable(#[trigger] c[i])
}

/// extensional equality of machine states; `lemma_st_eq` turns it into `==`
pub open spec fn st_eq(a: St, b: St) -> bool {
    tot_eq(a.regs, b.regs) && tot_eq(a.mem, b.mem) && a.fl == b.fl && a.ok == b.ok && a.calls == b.calls
}

pub broadcast proof fn lemma_st_eq(a: St, b: St)
    requires #[trigger] st_eq(a, b),
    ensures a == b,
{
    lemma_tot_eq(a.regs, b.regs);
    lemma_tot_eq(a.mem, b.mem);
}

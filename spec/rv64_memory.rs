// ---- spec/rv64_memory.rs : vocabulary of the RISC-V memory-management contracts (C09, C10) ----
// heap = X2, free = X3, X1 = TEMP (holds the reference count while it is updated)

/// (A-ITE, assumed)   <pre> ; beq c, x0, L ; <body> ; L:
#[verifier::external_body]
pub broadcast proof fn axiom_skip_pattern(pre: Seq<Code>, c: Register, z: Register, l1: String, l2: String, body: Seq<Code>, s: St)
    requires l1@ == l2@,
    ensures
        #[trigger] srun((pre.push(Code::BEQ(c, z, l1)) + body).push(Code::LAB(l2)), s)
            == (if rd(srun(pre, s), c) == rd(srun(pre, s), z) { srun(pre, s) } else { srun(body, srun(pre, s)) }),
{
}

/// (A-ITE, assumed)   <pre> ; beq c, x0, L1 ; <else> ; jal x0, L2 ; L1: ; <then> ; L2:
#[verifier::external_body]
pub broadcast proof fn axiom_ite_pattern(pre: Seq<Code>, c: Register, z: Register, j: Register, l1: String, l1b: String, l2: String, l2b: String, thn: Seq<Code>, els: Seq<Code>, s: St)
    requires l1@ == l1b@, l2@ == l2b@,
    ensures
        #[trigger] srun((((pre.push(Code::BEQ(c, z, l1)) + els).push(Code::JAL(j, l2)).push(Code::LAB(l1b))) + thn).push(Code::LAB(l2b)), s)
            == (if rd(srun(pre, s), c) == rd(srun(pre, s), z) { srun(thn, srun(pre, s)) } else { srun(els, srun(pre, s)) }),
{
}

/// dropping one reference to the block at `p` (p != 0); X1 receives the (updated) count
pub open spec fn erase_valid(t: St, p: u64) -> St {
    let rc = t.mem[p as int];
    if rc == 0 {
        St { mem: t.mem.insert(p as int, t.regs[3]), regs: t.regs.insert(1, rc).insert(3, p), ..t }
    } else {
        St { mem: t.mem.insert(p as int, wadd(rc, i2u(-1i64))), regs: t.regs.insert(1, wadd(rc, i2u(-1i64))), ..t }
    }
}

pub open spec fn erase_effect(t: St, p: u64) -> St { if p == 0 { t } else { erase_valid(t, p) } }

pub open spec fn share_effect(t: St, p: u64, n: int) -> St {
    if p == 0 { t } else {
        let v = wadd(t.mem[p as int], i2u(n as i64));
        St { mem: t.mem.insert(p as int, v), regs: t.regs.insert(1, v), ..t }
    }
}

pub open spec fn release_effect(t: St, p: u64) -> St {
    St { mem: t.mem.insert(p as int, t.regs[2]), regs: t.regs.insert(2, p), ..t }
}

pub open spec fn erase_fields_spec(t: St, r: Register, at: Register, k: int) -> St
    decreases k,
{
    if k <= 0 {
        t
    } else {
        let t1 = erase_fields_spec(t, r, at, k - 1);
        let c = t1.mem[rd(t1, r) as int + 16 + 16 * (k - 1)];
        erase_effect(wr(t1, at, c), c)
    }
}

/// effect of `acquire_block(new_block, additional_temp)`; case (3) - both list links zero - is the
/// ONLY place where the frontier X3 receives an address not already stored in the machine state (C10)
pub open spec fn acquire_effect(t0: St, new_block: Register, at: Register) -> St {
    let h0 = t0.regs[2];
    let t1 = wr(t0, new_block, h0);
    let next = t1.mem[t1.regs[2] as int];
    let t2 = St { regs: t1.regs.insert(2, next), ..t1 };
    if next != 0 {
        St { mem: t2.mem.insert(h0 as int, 0), ..t2 }
    } else {
        let f0 = t2.regs[3];
        let link = t2.mem[f0 as int];
        let t3 = St { regs: t2.regs.insert(2, f0).insert(3, link), ..t2 };
        if link == 0 {
            St { regs: t3.regs.insert(3, wadd(f0, 64)), ..t3 }
        } else {
            erase_fields_spec(St { mem: t3.mem.insert(f0 as int, 0), ..t3 }, Register(2), at, 3)
        }
    }
}

pub open spec fn is_ext(b: ContextBinding) -> bool { b.chi == Chirality::Ext }

pub open spec fn freg(n: int) -> Register { Register(n as usize) }

pub open spec fn store_value_effect(t: St, ext: bool, fst: Register, snd: Register, mb: Register, k: int) -> St {
    let t1 = St { mem: t.mem.insert(rd(t, mb) as int + 16 + 16 * k + 8, rd(t, snd)), ..t };
    if ext { St { mem: t1.mem.insert(rd(t1, mb) as int + 16 + 16 * k, 0), ..t1 } } else { St { mem: t1.mem.insert(rd(t1, mb) as int + 16 + 16 * k, rd(t1, fst)), ..t1 } }
}

pub open spec fn load_value_effect(t: St, ext: bool, fst: Register, snd: Register, mb: Register, k: int, share: bool) -> St {
    let t1 = wr(t, snd, t.mem[rd(t, mb) as int + 16 + 16 * k + 8]);
    if ext {
        t1
    } else {
        let t2 = wr(t1, fst, t1.mem[rd(t1, mb) as int + 16 + 16 * k]);
        if share { share_effect(t2, rd(t2, fst), 1) } else { t2 }
    }
}

// ---- multi-field stores / loads (one block) -----------------------------------------------------------

/// zero the pointer slots of fields 0..k of block `mb`
pub open spec fn store_zeros_effect(t: St, mb: Register, k: int) -> St
    decreases k,
{
    if k <= 0 { t } else {
        let t1 = store_zeros_effect(t, mb, k - 1);
        St { mem: t1.mem.insert(rd(t1, mb) as int + 16 + 16 * (k - 1), 0), ..t1 }
    }
}

/// the last `i` bindings of `bs` stored, right to left, into fields ff-1, ff-2, .. of block `mb`; the
/// variable `bs[j]` lives at environment position `rem + j` (registers 2 * (rem + j) + 4 and + 5)
pub open spec fn store_values_iter(t: St, bs: Seq<ContextBinding>, rem: int, mb: Register, ff: int, i: int) -> St
    decreases i,
{
    if i <= 0 { t } else {
        let t1 = store_values_iter(t, bs, rem, mb, ff, i - 1);
        let j = bs.len() - i;
        store_value_effect(t1, is_ext(bs[j]), freg(2 * (rem + j) + 4), freg(2 * (rem + j) + 5), mb, ff - i)
    }
}

/// effect of `store_values`: all bindings stored into the last fields, the unused first fields marked with null
pub open spec fn store_values_effect(t: St, bs: Seq<ContextBinding>, rem: int, mb: Register, ff: int) -> St {
    store_zeros_effect(store_values_iter(t, bs, rem, mb, ff, bs.len() as int), mb, ff - bs.len())
}

/// the last `i` bindings of `bs` loaded, right to left, from fields ff-1, ff-2, .. of block `mb`
pub open spec fn load_values_iter(t: St, bs: Seq<ContextBinding>, ex: int, mb: Register, ff: int, share: bool, i: int) -> St
    decreases i,
{
    if i <= 0 { t } else {
        let t1 = load_values_iter(t, bs, ex, mb, ff, share, i - 1);
        let j = bs.len() - i;
        load_value_effect(t1, is_ext(bs[j]), freg(2 * (ex + j) + 4), freg(2 * (ex + j) + 5), mb, ff - i, share)
    }
}

// ---- objects of any size: linked blocks --------------------------------------------------------------

/// effect of `store_fields`: the bindings `bs` (environment positions rem ..) are stored right to left into a
/// chain of blocks - at most 3 values in the last block, 2 values and the link to the previously filled block
/// in every other one; every filled block is `HEAP` (x2), and after filling it a new block is acquired into
/// the first register after the variables still to be stored. An empty object is marked by a null pointer.
pub open spec fn store_fields_effect(t: St, bs: Seq<ContextBinding>, rem: int, last: bool) -> St
    decreases bs.len(),
{
    let n = bs.len() as int;
    if n == 0 {
        if last { wr(t, freg(2 * rem + 4), 0) } else { t }
    } else {
        let t1 = if !last { step(Code::SW(freg(2 * (rem + n) + 4), Register(2), 48i64), t) } else { t };
        let cap = if last { 3int } else { 2int };
        let rest = if n <= cap { 0int } else { n - cap };
        let t2 = store_values_effect(t1, bs.subrange(rest, n), rem + rest, Register(2), cap);
        let t3 = acquire_effect(t2, freg(2 * (rem + rest) + 4), freg(2 * (rem + rest) + 5));
        store_fields_effect(t3, bs.subrange(0, rest), rem, false)
    }
}

/// effect of `load_fields`: the chain of blocks is walked first to last; the pointer to the block holding the
/// values `bs[rest..n]` is in the first register after the variables loaded before. A block is put on the
/// reusable free list before its fields are read iff the object is not shared (`!share`).
pub open spec fn load_fields_effect(t: St, bs: Seq<ContextBinding>, ex: int, last: bool, share: bool) -> St
    decreases bs.len(),
{
    let n = bs.len() as int;
    if n == 0 { t } else {
        let cap = if last { 3int } else { 2int };
        let rest = if n <= cap { 0int } else { n - cap };
        let ta = load_fields_effect(t, bs.subrange(0, rest), ex, false, share);
        let next = bs.subrange(rest, n);
        let mb = freg(2 * (ex + rest) + 4);
        let t1 = if !share { release_effect(ta, rd(ta, mb)) } else { ta };
        let t2 = if !last { step(Code::LW(freg(2 * (ex + n) + 4), mb, 48i64), t1) } else { t1 };
        load_values_iter(t2, next, ex + rest, mb, cap, share, next.len() as int)
    }
}

/// effect of `Memory::load`: the reference count decides between taking the object apart (count 0: blocks
/// released, children moved) and copying it (count > 0: count decremented, children shared)
pub open spec fn load_effect(t: St, bs: Seq<ContextBinding>, ex: int) -> St {
    if bs.len() == 0 { t } else {
        let mb = freg(2 * ex + 4);
        let t1 = step(Code::LW(Register(1), mb, 0i64), t);
        if rd(t1, Register(1)) == 0 {
            load_fields_effect(t1, bs, ex, true, false)
        } else {
            let t2 = step(Code::SW(Register(1), mb, 0i64), step(Code::ADDI(Register(1), Register(1), -1i64), t1));
            load_fields_effect(t2, bs, ex, true, true)
        }
    }
}

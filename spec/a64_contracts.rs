// ---- spec/a64_contracts.rs : vocabulary used by the AArch64 contract files ----
pub open spec fn T_TEMP() -> Temporary { Temporary::Register(Register::X(2)) }
pub open spec fn T_TEMP2() -> Temporary { Temporary::Register(Register::X(3)) }

/// `t := v`, nothing else changes except the two scratch registers X2, X3
pub open spec fn upd(o: Seq<Code>, n: Seq<Code>, s: St, t: Temporary, v: u64) -> bool {
    &&& eqv_t(run(n, s), set(run(o, s), t, v))
    &&& get(run(n, s), t) == v
}

/// `t := v`, nothing else changes except the first scratch register X2
pub open spec fn upd1(o: Seq<Code>, n: Seq<Code>, s: St, t: Temporary, v: u64) -> bool {
    &&& eqv_t1(run(n, s), set(run(o, s), t, v))
    &&& get(run(n, s), t) == v
}

pub open spec fn tn(n: TemporaryNumber) -> int {
    match n { TemporaryNumber::Fst => 0, TemporaryNumber::Snd => 1 }
}

/// position -> temporary: 26 register positions (X4..X29 in internal numbering), then spill slots 1..255
pub open spec fn tfp(p: int) -> Temporary {
    if p + 4 < 30 { Temporary::Register(Register::X((p + 4) as usize)) } else { Temporary::Spill(Spill((p - 25) as usize)) }
}

pub proof fn lemma_tfp_injective(p: int, q: int)
    requires 0 <= p < 281, 0 <= q < 281, tfp(p) == tfp(q),
    ensures p == q,
{
}

pub open spec fn first_index(b: Seq<ContextBinding>, id: usize) -> int
    decreases b.len(),
{
    if b.len() == 0 { 0 } else if b[0].var.id == id { 0 } else { 1 + first_index(b.subrange(1, b.len() as int), id) }
}

/// the first index is k if position k carries the id and no earlier position does
pub proof fn lemma_first_index(b: Seq<ContextBinding>, id: usize, k: int)
    requires
        0 <= k < b.len(),
        b[k].var.id == id,
        forall|j: int| 0 <= j < k ==> (#[trigger] b[j]).var.id != id,
    ensures
        first_index(b, id) == k,
    decreases k,
{
    if k > 0 {
        let t = b.subrange(1, b.len() as int);
        assert(t[k - 1] == b[k]);
        assert forall|j: int| 0 <= j < k - 1 implies (#[trigger] t[j]).var.id != id by {
            assert(t[j] == b[j + 1]);
        }
        lemma_first_index(t, id, k - 1);
        assert(b[0].var.id != id);
    }
}

pub open spec fn jumps_to(c: Code, s: St, target: u64) -> bool {
    match c {
        Code::BR(r) => xreg_ok(r) && rd(s, r) == target,
        _ => false,
    }
}

pub open spec fn is_fixed_jump(c: Code) -> bool { c is B }

pub open spec fn tmp_reg_set(t: Temporary) -> ISet<int> {
    match t {
        Temporary::Register(Register::X(n)) => iset![n as int],
        _ => ISet::<int>::empty(),
    }
}

/// the five binary operators of the source language
pub enum Bop { Add, Sub, Mul, Div, Rem }

/// value of `a op b`; for Div/Rem only meaningful under `div_defined`
pub open spec fn bop(o: Bop, a: u64, b: u64) -> u64 {
    match o {
        Bop::Add => wadd(a, b),
        Bop::Sub => wsub(a, b),
        Bop::Mul => wmul(a, b),
        Bop::Div => wdiv(a, b),
        Bop::Rem => wrem(a, b),
    }
}

pub open spec fn bop_defined(o: Bop, a: u64, b: u64) -> bool {
    match o {
        Bop::Div => div_defined(a, b),
        Bop::Rem => div_defined(a, b),
        _ => true,
    }
}

/// operand discipline of the generic three-address emitter `op`: sources are variable temporaries;
/// additionally the first source may be the scratch register X2 when the target is X2 too (the
/// jump-table dispatch of `switch` computes X2 := X2 + tag); the target is never the second scratch X3
pub open spec fn op_operands(t: Temporary, s1: Temporary, s2: Temporary) -> bool {
    &&& (var_tmp(t) || t == T_TEMP())
    &&& (var_tmp(s1) || (s1 == T_TEMP() && t == T_TEMP()))
    &&& var_tmp(s2)
}

/// `t := s1 op s2`; clobbers only X2, X3 and - for `rem` only - possibly the reserved spill slot 0
pub open spec fn op_post(o: Seq<Code>, n: Seq<Code>, s: St, k: Bop, t: Temporary, s1: Temporary, s2: Temporary) -> bool {
    let s0 = run(o, s);
    let v = bop(k, get(s0, s1), get(s0, s2));
    &&& eqv(run(n, s), set(s0, t, v), iset![2int, 3int], if k is Rem { iset![slot_addr(s0, 0)] } else { ISet::<int>::empty() })
    &&& get(run(n, s), t) == v
}

// ---- literal synthesis (load_immediate) -------------------------------------------------------
/// k-th 16-bit halfword of a 64-bit word
pub open spec fn hw(v: u64, k: u64) -> u64 { (v >> (16 * k)) & 0xffff }

/// halfwords below `i` already equal those of `v`, the others hold the ignored pattern `ig`
pub open spec fn hw_progress(r: u64, v: u64, ig: u64, i: int) -> bool {
    &&& hw(r, 0) == (if 0 < i { hw(v, 0) } else { ig })
    &&& hw(r, 1) == (if 1 < i { hw(v, 1) } else { ig })
    &&& hw(r, 2) == (if 2 < i { hw(v, 2) } else { ig })
    &&& hw(r, 3) == (if 3 < i { hw(v, 3) } else { ig })
}

/// all halfwords of `v` below `i` equal the ignored pattern (nothing had to be emitted so far)
pub open spec fn hw_skipped(v: u64, ig: u64, i: int) -> bool {
    &&& (0 < i ==> hw(v, 0) == ig)
    &&& (1 < i ==> hw(v, 1) == ig)
    &&& (2 < i ==> hw(v, 2) == ig)
    &&& (3 < i ==> hw(v, 3) == ig)
}

/// ASSUMED (Verus cannot reason about `>>` on signed operands with a signed shift amount; the
/// identity is proved for all i64 and the four shifts by the loop-free Kani harness `halfword_bridge`):
/// the halfword the exec code extracts with an arithmetic shift equals the logical-shift halfword.
#[verifier::external_body]
pub broadcast proof fn axiom_halfword_bridge(x: i64, sh: i64)
    requires sh == 0 || sh == 16 || sh == 32 || sh == 48,
    ensures ((#[trigger] (x >> sh)) & 0xFFFF) as u16 as u64 == ((x as u64) >> (sh as u64)) & 0xffff,
{
}

pub broadcast proof fn lemma_i2u_cast(x: i64)
    ensures #[trigger] i2u(x) == x as u64,
{
    assert(x as u64 == (if x >= 0 { x as int } else { x as int + 0x1_0000_0000_0000_0000 }) as u64) by (bit_vector);
}

pub proof fn lemma_hw_movz(x: u64, k: u64)
    requires x < 0x10000, k < 4,
    ensures
        hw(x << (16 * k), 0) == (if k == 0 { x } else { 0 }),
        hw(x << (16 * k), 1) == (if k == 1 { x } else { 0 }),
        hw(x << (16 * k), 2) == (if k == 2 { x } else { 0 }),
        hw(x << (16 * k), 3) == (if k == 3 { x } else { 0 }),
{
    assert(((x << (16 * k)) >> (16 * 0u64)) & 0xffff == (if k == 0 { x } else { 0 })) by (bit_vector) requires x < 0x10000, k < 4;
    assert(((x << (16 * k)) >> (16 * 1u64)) & 0xffff == (if k == 1 { x } else { 0 })) by (bit_vector) requires x < 0x10000, k < 4;
    assert(((x << (16 * k)) >> (16 * 2u64)) & 0xffff == (if k == 2 { x } else { 0 })) by (bit_vector) requires x < 0x10000, k < 4;
    assert(((x << (16 * k)) >> (16 * 3u64)) & 0xffff == (if k == 3 { x } else { 0 })) by (bit_vector) requires x < 0x10000, k < 4;
}

pub proof fn lemma_hw_movn(x: u64, k: u64)
    requires x < 0x10000, k < 4,
    ensures
        hw(!(x << (16 * k)), 0) == (if k == 0 { !x & 0xffff } else { 0xffff }),
        hw(!(x << (16 * k)), 1) == (if k == 1 { !x & 0xffff } else { 0xffff }),
        hw(!(x << (16 * k)), 2) == (if k == 2 { !x & 0xffff } else { 0xffff }),
        hw(!(x << (16 * k)), 3) == (if k == 3 { !x & 0xffff } else { 0xffff }),
{
    assert(((!(x << (16 * k))) >> (16 * 0u64)) & 0xffff == (if k == 0 { !x & 0xffff } else { 0xffff })) by (bit_vector) requires x < 0x10000, k < 4;
    assert(((!(x << (16 * k))) >> (16 * 1u64)) & 0xffff == (if k == 1 { !x & 0xffff } else { 0xffff })) by (bit_vector) requires x < 0x10000, k < 4;
    assert(((!(x << (16 * k))) >> (16 * 2u64)) & 0xffff == (if k == 2 { !x & 0xffff } else { 0xffff })) by (bit_vector) requires x < 0x10000, k < 4;
    assert(((!(x << (16 * k))) >> (16 * 3u64)) & 0xffff == (if k == 3 { !x & 0xffff } else { 0xffff })) by (bit_vector) requires x < 0x10000, k < 4;
}

pub proof fn lemma_hw_movk(old: u64, x: u64, k: u64)
    requires x < 0x10000, k < 4,
    ensures
        hw((old & !(0xffffu64 << (16 * k))) | (x << (16 * k)), 0) == (if k == 0 { x } else { hw(old, 0) }),
        hw((old & !(0xffffu64 << (16 * k))) | (x << (16 * k)), 1) == (if k == 1 { x } else { hw(old, 1) }),
        hw((old & !(0xffffu64 << (16 * k))) | (x << (16 * k)), 2) == (if k == 2 { x } else { hw(old, 2) }),
        hw((old & !(0xffffu64 << (16 * k))) | (x << (16 * k)), 3) == (if k == 3 { x } else { hw(old, 3) }),
{
    assert((((old & !(0xffffu64 << (16 * k))) | (x << (16 * k))) >> (16 * 0u64)) & 0xffff == (if k == 0 { x } else { (old >> (16 * 0u64)) & 0xffff })) by (bit_vector) requires x < 0x10000, k < 4;
    assert((((old & !(0xffffu64 << (16 * k))) | (x << (16 * k))) >> (16 * 1u64)) & 0xffff == (if k == 1 { x } else { (old >> (16 * 1u64)) & 0xffff })) by (bit_vector) requires x < 0x10000, k < 4;
    assert((((old & !(0xffffu64 << (16 * k))) | (x << (16 * k))) >> (16 * 2u64)) & 0xffff == (if k == 2 { x } else { (old >> (16 * 2u64)) & 0xffff })) by (bit_vector) requires x < 0x10000, k < 4;
    assert((((old & !(0xffffu64 << (16 * k))) | (x << (16 * k))) >> (16 * 3u64)) & 0xffff == (if k == 3 { x } else { (old >> (16 * 3u64)) & 0xffff })) by (bit_vector) requires x < 0x10000, k < 4;
}

pub proof fn lemma_hw_ext(a: u64, b: u64)
    ensures (hw(a, 0) == hw(b, 0) && hw(a, 1) == hw(b, 1) && hw(a, 2) == hw(b, 2) && hw(a, 3) == hw(b, 3)) ==> a == b,
{
    if hw(a, 0) == hw(b, 0) && hw(a, 1) == hw(b, 1) && hw(a, 2) == hw(b, 2) && hw(a, 3) == hw(b, 3) {
        assert(a == b) by (bit_vector)
            requires (a >> (16 * 0u64)) & 0xffff == (b >> (16 * 0u64)) & 0xffff, (a >> (16 * 1u64)) & 0xffff == (b >> (16 * 1u64)) & 0xffff,
                     (a >> (16 * 2u64)) & 0xffff == (b >> (16 * 2u64)) & 0xffff, (a >> (16 * 3u64)) & 0xffff == (b >> (16 * 3u64)) & 0xffff;
    }
}

/// only the target register of the literal load changes
pub open spec fn li_frame(a: St, b: St, r: Register) -> bool {
    eqv(a, b, tmp_reg_set(Temporary::Register(r)), ISet::<int>::empty())
}

pub open spec fn movk_facts(old: u64, x: u64, k: u64) -> bool {
    &&& hw(movk(old, x, (16 * k) as u64), 0) == (if k == 0 { x } else { hw(old, 0) })
    &&& hw(movk(old, x, (16 * k) as u64), 1) == (if k == 1 { x } else { hw(old, 1) })
    &&& hw(movk(old, x, (16 * k) as u64), 2) == (if k == 2 { x } else { hw(old, 2) })
    &&& hw(movk(old, x, (16 * k) as u64), 3) == (if k == 3 { x } else { hw(old, 3) })
}

pub proof fn lemma_not16(h: u16)
    ensures (!((!h) as u64)) & 0xffff == h as u64, ((!h) as u64) < 0x10000,
{
    assert((!((!h) as u64)) & 0xffff == h as u64) by (bit_vector);
    assert(((!h) as u64) < 0x10000) by (bit_vector);
}

pub proof fn lemma_li_const()
    ensures shl16(0, 0) == 0, !shl16(0, 0) == 0xffff_ffff_ffff_ffffu64,
{
    assert(0u64 << 0u64 == 0) by (bit_vector);
    assert(!(0u64 << 0u64) == 0xffff_ffff_ffff_ffffu64) by (bit_vector);
}

pub proof fn lemma_hw_const()
    ensures
        hw(0, 0) == 0 && hw(0, 1) == 0 && hw(0, 2) == 0 && hw(0, 3) == 0,
        hw(0xffff_ffff_ffff_ffff, 0) == 0xffff && hw(0xffff_ffff_ffff_ffff, 1) == 0xffff && hw(0xffff_ffff_ffff_ffff, 2) == 0xffff && hw(0xffff_ffff_ffff_ffff, 3) == 0xffff,
        forall|v: u64, k: u64| k < 4 ==> #[trigger] hw(v, k) < 0x10000,
{
    assert((0u64 >> (16 * 0u64)) & 0xffff == 0 && (0u64 >> (16 * 1u64)) & 0xffff == 0 && (0u64 >> (16 * 2u64)) & 0xffff == 0 && (0u64 >> (16 * 3u64)) & 0xffff == 0) by (bit_vector);
    assert((0xffff_ffff_ffff_ffffu64 >> (16 * 0u64)) & 0xffff == 0xffff && (0xffff_ffff_ffff_ffffu64 >> (16 * 1u64)) & 0xffff == 0xffff
        && (0xffff_ffff_ffff_ffffu64 >> (16 * 2u64)) & 0xffff == 0xffff && (0xffff_ffff_ffff_ffffu64 >> (16 * 3u64)) & 0xffff == 0xffff) by (bit_vector);
    assert forall|v: u64, k: u64| k < 4 implies #[trigger] hw(v, k) < 0x10000 by {
        assert((v >> (16 * k)) & 0xffff < 0x10000) by (bit_vector);
    }
}

// ---- spec/a64_contracts.rs : vocabulary used by the AArch64 contract files ----
pub open spec fn T_TEMP() -> Temporary { Temporary::Register(Register::X(2)) }
pub open spec fn T_TEMP2() -> Temporary { Temporary::Register(Register::X(3)) }

/// `t := v`, nothing else changes except the two scratch registers X2, X3
pub open spec fn upd(o: Seq<Code>, n: Seq<Code>, s: St, t: Temporary, v: u64) -> bool {
    &&& eqv_t(run(n, s), set(run(o, s), t, v))
    &&& get(run(n, s), t) == v
}

/// `t := v`, nothing else changes except the first scratch register X2
pub open spec fn upd1(o: Seq<Code>, n: Seq<Code>, s: St, t: Temporary, v: u64) -> bool {
    &&& eqv_t1(run(n, s), set(run(o, s), t, v))
    &&& get(run(n, s), t) == v
}

pub open spec fn tn(n: TemporaryNumber) -> int {
    match n { TemporaryNumber::Fst => 0, TemporaryNumber::Snd => 1 }
}

/// position -> temporary: 26 register positions (X4..X29 in internal numbering), then spill slots 1..255
pub open spec fn tfp(p: int) -> Temporary {
    if p + 4 < 30 { Temporary::Register(Register::X((p + 4) as usize)) } else { Temporary::Spill(Spill((p - 25) as usize)) }
}

pub proof fn lemma_tfp_injective(p: int, q: int)
    requires 0 <= p < 281, 0 <= q < 281, tfp(p) == tfp(q),
    ensures p == q,
{
}

pub open spec fn first_index(b: Seq<ContextBinding>, id: usize) -> int
    decreases b.len(),
{
    if b.len() == 0 { 0 } else if b[0].var.id == id { 0 } else { 1 + first_index(b.subrange(1, b.len() as int), id) }
}

pub open spec fn jumps_to(c: Code, s: St, target: u64) -> bool {
    match c {
        Code::BR(r) => xreg_ok(r) && rd(s, r) == target,
        _ => false,
    }
}

pub open spec fn is_fixed_jump(c: Code) -> bool { c is B }

pub open spec fn tmp_reg_set(t: Temporary) -> ISet<int> {
    match t {
        Temporary::Register(Register::X(n)) => iset![n as int],
        _ => ISet::<int>::empty(),
    }
}

/// the five binary operators of the source language
pub enum Bop { Add, Sub, Mul, Div, Rem }

/// value of `a op b`; for Div/Rem only meaningful under `div_defined`
pub open spec fn bop(o: Bop, a: u64, b: u64) -> u64 {
    match o {
        Bop::Add => wadd(a, b),
        Bop::Sub => wsub(a, b),
        Bop::Mul => wmul(a, b),
        Bop::Div => wdiv(a, b),
        Bop::Rem => wrem(a, b),
    }
}

pub open spec fn bop_defined(o: Bop, a: u64, b: u64) -> bool {
    match o {
        Bop::Div => div_defined(a, b),
        Bop::Rem => div_defined(a, b),
        _ => true,
    }
}

/// operand discipline of the generic three-address emitter `op`: sources are variable temporaries;
/// additionally the first source may be the scratch register X2 when the target is X2 too (the
/// jump-table dispatch of `switch` computes X2 := X2 + tag); the target is never the second scratch X3
pub open spec fn op_operands(t: Temporary, s1: Temporary, s2: Temporary) -> bool {
    &&& (var_tmp(t) || t == T_TEMP())
    &&& (var_tmp(s1) || (s1 == T_TEMP() && t == T_TEMP()))
    &&& var_tmp(s2)
}

/// `t := s1 op s2`; clobbers only X2, X3 and - for `rem` only - possibly the reserved spill slot 0
pub open spec fn op_post(o: Seq<Code>, n: Seq<Code>, s: St, k: Bop, t: Temporary, s1: Temporary, s2: Temporary) -> bool {
    let s0 = run(o, s);
    let v = bop(k, get(s0, s1), get(s0, s2));
    &&& eqv(run(n, s), set(s0, t, v), iset![2int, 3int], if k is Rem { iset![slot_addr(s0, 0)] } else { ISet::<int>::empty() })
    &&& get(run(n, s), t) == v
}

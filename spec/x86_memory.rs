// ---- spec/x86_memory.rs : vocabulary of the x86-64 memory-management contracts (C09, C10) ----
// heap = rbx (register 2): head of the immediately reusable free list (always a usable block)
// free = rbp (register 3): head of the deferred free list / allocation frontier
// block layout: word 0 = reference count or free-list link, then 3 fields of two words each (64 bytes)

pub open spec fn R_HEAP() -> int { 2 }
pub open spec fn R_FREE() -> int { 3 }

/// flags after comparing `a` with zero
pub open spec fn cmp0(t: St, a: u64) -> St { St { fl: Some((a, 0u64)), ..t } }

/// (A-ITE, assumed) the label pattern emitted by `skip_if_zero`:
///   <pre> ; je L ; <body> ; L:
#[verifier::external_body]
pub broadcast proof fn axiom_skip_pattern(pre: Seq<Code>, l1: String, l2: String, body: Seq<Code>, s: St)
    requires l1@ == l2@,
    ensures
        #[trigger] srun((pre.push(Code::JEL(l1)) + body).push(Code::LAB(l2)), s) == (match srun(pre, s).fl {
            Some((a, b)) => if a == b { srun(pre, s) } else { srun(body, srun(pre, s)) },
            None => arbitrary(),
        }),
{
}

/// (A-ITE, assumed) the label pattern emitted by `if_zero_then_else`:
///   <pre> ; je L1 ; <else> ; jmp L2 ; L1: ; <then> ; L2:
#[verifier::external_body]
pub broadcast proof fn axiom_ite_pattern(pre: Seq<Code>, l1: String, l1b: String, l2: String, l2b: String, thn: Seq<Code>, els: Seq<Code>, s: St)
    requires l1@ == l1b@, l2@ == l2b@,
    ensures
        #[trigger] srun((((pre.push(Code::JEL(l1)) + els).push(Code::JMPL(l2)).push(Code::LAB(l1b))) + thn).push(Code::LAB(l2b)), s) == (match srun(pre, s).fl {
            Some((a, b)) => if a == b { srun(thn, srun(pre, s)) } else { srun(els, srun(pre, s)) },
            None => arbitrary(),
        }),
{
}

/// state equality up to flags and the scratch register rcx
pub open spec fn same(a: St, b: St) -> bool { eqv_t(a, b) }

/// dropping one reference to the block at `p` (p != 0): last reference -> push on the deferred
/// free list (children untouched), otherwise decrement the count
pub open spec fn erase_valid(t: St, p: u64) -> St {
    if t.mem[p as int] == 0 {
        St { mem: t.mem.insert(p as int, t.regs[3]), regs: t.regs.insert(3, p), ..t }
    } else {
        St { mem: t.mem.insert(p as int, wadd(t.mem[p as int], i2u(-1i64))), ..t }
    }
}

pub open spec fn erase_effect(t: St, p: u64) -> St { if p == 0 { t } else { erase_valid(t, p) } }

pub open spec fn share_effect(t: St, p: u64, n: int) -> St {
    if p == 0 { t } else { St { mem: t.mem.insert(p as int, wadd(t.mem[p as int], i2u(n as i64))), ..t } }
}

/// prepend block `p` to the reusable free list
pub open spec fn release_effect(t: St, p: u64) -> St {
    St { mem: t.mem.insert(p as int, t.regs[2]), regs: t.regs.insert(2, p), ..t }
}

/// forget the flags
pub open spec fn nf(t: St) -> St { St { fl: None, ..t } }

/// effect of `erase_block(to_erase)` on state t0 (flags aside)
pub open spec fn erase_block_effect(t0: St, to_erase: Temporary) -> St {
    let p = get(t0, to_erase);
    let t = if to_erase is Spill { wr(t0, Register(1), p) } else { t0 };
    erase_effect(t, p)
}

/// effect of `share_block_n(to_share, n)`
pub open spec fn share_block_effect(t0: St, to_share: Temporary, n: int) -> St {
    let p = get(t0, to_share);
    let t = if to_share is Spill && p != 0 { wr(t0, Register(1), p) } else { t0 };
    share_effect(t, p, n)
}

/// erase the first `k` children (first slots of fields 0..k) of the block register `r` points to
pub open spec fn erase_fields_spec(t: St, r: Register, k: int) -> St
    decreases k,
{
    if k <= 0 {
        t
    } else {
        let t1 = erase_fields_spec(t, r, k - 1);
        let c = t1.mem[rd(t1, r) as int + 16 + 16 * (k - 1)];
        erase_effect(wr(t1, Register(1), c), c)
    }
}

/// effect of `acquire_block(new_block)` (flags aside). The three cases of the allocation policy:
///  (1) the reusable list has a further element: pop it;
///  (2) else the deferred list is non-empty: take its head, clear its link, erase its children;
///  (3) else bump the frontier by one block (64 bytes) - the ONLY place fresh memory is taken (C10).
pub open spec fn acquire_effect(t0: St, new_block: Temporary) -> St {
    let h0 = t0.regs[2];
    let t1 = if new_block is Spill { set(wr(t0, Register(1), h0), new_block, h0) } else { set(t0, new_block, h0) };
    let next = t1.mem[t1.regs[2] as int];
    let t2 = St { regs: t1.regs.insert(2, next), ..t1 };
    if next != 0 {
        // (1): initialise the reference count of the block just acquired
        St { mem: t2.mem.insert(h0 as int, 0), ..t2 }
    } else {
        let f0 = t2.regs[3];
        let link = t2.mem[f0 as int];
        let t3 = St { regs: t2.regs.insert(2, f0).insert(3, link), ..t2 };
        if link == 0 {
            // (3): bump allocation
            St { regs: t3.regs.insert(3, wadd(f0, 64)), ..t3 }
        } else {
            // (2): reuse a deferred block: clear its link, then erase its three children
            erase_fields_spec(St { mem: t3.mem.insert(f0 as int, 0), ..t3 }, Register(2), 3)
        }
    }
}

/// C10, sentence 1, as a corollary of `acquire_effect`: the frontier register only moves to an address
/// that was not already stored in the machine state (old FREE + one block) when both list links are zero.
pub proof fn lemma_bump_only_when_both_lists_empty(t0: St, new_block: Temporary)
    requires
        var_tmp(new_block),
    ensures
        ({
            let h0 = t0.regs[2];
            let t1 = if new_block is Spill { set(wr(t0, Register(1), h0), new_block, h0) } else { set(t0, new_block, h0) };
            let next = t1.mem[h0 as int];
            let link = t1.mem[t1.regs[3] as int];
            acquire_effect(t0, new_block).regs[3] == wadd(t0.regs[3], 64) && next == 0 && link == 0
            || (next != 0 && acquire_effect(t0, new_block).regs[3] == t0.regs[3])
            || (next == 0 && link != 0)
        }),
{
}

/// store the temporary `tmp` into the word at `mb + off` (a spilled temporary is staged through rcx)
pub open spec fn store_field_effect(t: St, tmp: Temporary, mb: Register, off: int) -> St {
    let v = get(t, tmp);
    let t1 = if tmp is Spill { wr(t, Register(1), v) } else { t };
    stm(t1, rd(t, mb) as int + off, v)
}

/// load the word at `mb + off` into the temporary `tmp` (a spilled temporary is staged through rcx)
pub open spec fn load_field_effect(t: St, tmp: Temporary, mb: Register, off: int) -> St {
    let v = t.mem[rd(t, mb) as int + off];
    match tmp {
        Temporary::Register(r) => wr(t, r, v),
        Temporary::Spill(_) => set(wr(t, Register(1), v), tmp, v),
    }
}


/// store a variable (second slot always; first slot: pointer, or 0 for an integer) into field `k` of block `mb`
pub open spec fn store_value_effect(t: St, ext: bool, fst: Temporary, snd: Temporary, mb: Register, k: int) -> St {
    let t1 = store_field_effect(t, snd, mb, 16 + 16 * k + 8);
    if ext { stm(t1, rd(t1, mb) as int + 16 + 16 * k, 0) } else { store_field_effect(t1, fst, mb, 16 + 16 * k) }
}

/// load field `k` of block `mb` into a variable's temporaries; the loaded pointer is shared iff `share`
pub open spec fn load_value_effect(t: St, ext: bool, fst: Temporary, snd: Temporary, mb: Register, k: int, share: bool) -> St {
    let t1 = load_field_effect(t, snd, mb, 16 + 16 * k + 8);
    if ext {
        t1
    } else {
        let t2 = load_field_effect(t1, fst, mb, 16 + 16 * k);
        if share { share_effect(t2, get(t2, fst), 1) } else { t2 }
    }
}

// ---- multi-field stores / loads (one block) -----------------------------------------------------------

/// zero the pointer slots of fields 0..k of block `mb`
pub open spec fn store_zeros_effect(t: St, mb: Register, k: int) -> St
    decreases k,
{
    if k <= 0 { t } else {
        let t1 = store_zeros_effect(t, mb, k - 1);
        stm(t1, rd(t1, mb) as int + 16 + 16 * (k - 1), 0)
    }
}

/// the last `i` bindings of `bs` stored, right to left, into fields ff-1, ff-2, .. of block `mb`; the
/// variable `bs[j]` lives at environment position `rem + j`
pub open spec fn store_values_iter(t: St, bs: Seq<ContextBinding>, rem: int, mb: Register, ff: int, i: int) -> St
    decreases i,
{
    if i <= 0 { t } else {
        let t1 = store_values_iter(t, bs, rem, mb, ff, i - 1);
        let j = bs.len() - i;
        store_value_effect(t1, is_ext(bs[j]), tfp(2 * (rem + j)), tfp(2 * (rem + j) + 1), mb, ff - i)
    }
}

/// effect of `store_values`: all bindings stored into the last fields, the unused first fields marked with null
pub open spec fn store_values_effect(t: St, bs: Seq<ContextBinding>, rem: int, mb: Register, ff: int) -> St {
    store_zeros_effect(store_values_iter(t, bs, rem, mb, ff, bs.len() as int), mb, ff - bs.len())
}

/// the last `i` bindings of `bs` loaded, right to left, from fields ff-1, ff-2, .. of block `mb`
pub open spec fn load_values_iter(t: St, bs: Seq<ContextBinding>, ex: int, mb: Register, ff: int, share: bool, i: int) -> St
    decreases i,
{
    if i <= 0 { t } else {
        let t1 = load_values_iter(t, bs, ex, mb, ff, share, i - 1);
        let j = bs.len() - i;
        load_value_effect(t1, is_ext(bs[j]), tfp(2 * (ex + j)), tfp(2 * (ex + j) + 1), mb, ff - i, share)
    }
}

/// zeroing fields neither reads nor writes the flags
pub proof fn lemma_store_zeros_nf(t: St, mb: Register, k: int)
    ensures
        st_eq(store_zeros_effect(nf(t), mb, k), nf(store_zeros_effect(t, mb, k))),
    decreases k,
{
    if k > 0 {
        lemma_store_zeros_nf(t, mb, k - 1);
        lemma_st_eq(store_zeros_effect(nf(t), mb, k - 1), nf(store_zeros_effect(t, mb, k - 1)));
    }
}

// ---- objects of any size: linked blocks --------------------------------------------------------------

/// effect of `store_fields` on a flag-free state `t`: the bindings `bs` (environment positions rem ..) are
/// stored right to left into a chain of blocks - at most 3 values in the last block, 2 values and the link to
/// the previously filled block in every other one; every filled block is `HEAP` (rbx), and after filling it a
/// new block is acquired into the first temporary after the variables still to be stored. An empty object is
/// marked by a null pointer. Every intermediate state is flag-free (`nf`).
pub open spec fn store_fields_effect(t: St, bs: Seq<ContextBinding>, rem: int, last: bool) -> St
    decreases bs.len(),
{
    let n = bs.len() as int;
    if n == 0 {
        if last { nf(set(t, tfp(2 * rem), 0)) } else { t }
    } else {
        let t1 = if !last { nf(store_field_effect(t, tfp(2 * (rem + n)), Register(2), 48int)) } else { t };
        let cap = if last { 3int } else { 2int };
        let rest = if n <= cap { 0int } else { n - cap };
        let t2 = nf(store_values_effect(t1, bs.subrange(rest, n), rem + rest, Register(2), cap));
        let t3 = nf(acquire_effect(t2, tfp(2 * (rem + rest))));
        store_fields_effect(t3, bs.subrange(0, rest), rem, false)
    }
}

/// does `load_fields` leave the "scratch register evacuated" flag set? (state-independent)
pub open spec fn load_fields_rf(n: int, ex: int, last: bool, rf: bool) -> bool
    decreases n,
{
    if n <= 0 { rf } else {
        let cap = if last { 3int } else { 2int };
        let rest = if n <= cap { 0int } else { n - cap };
        let rfa = load_fields_rf(rest, ex, false, rf);
        if tfp(2 * (ex + rest)) is Spill { true } else { rfa }
    }
}

/// effect of `load_fields` on a flag-free state `t`: the chain of blocks is walked first to last; the pointer
/// to the block holding the values `bs[rest..n]` is in the first temporary after the variables loaded before;
/// a spilled block pointer is worked on in rax, which is evacuated to the reserved spill slot 0 the first time
/// this happens (`rf` tells whether it already happened) and restored after the last block. A block is put on
/// the reusable free list before its fields are read iff the object is not shared (`!share`).
pub open spec fn load_fields_effect(t: St, bs: Seq<ContextBinding>, ex: int, last: bool, share: bool, rf: bool) -> St
    decreases bs.len(),
{
    let n = bs.len() as int;
    if n == 0 { t } else {
        let cap = if last { 3int } else { 2int };
        let rest = if n <= cap { 0int } else { n - cap };
        let ta = load_fields_effect(t, bs.subrange(0, rest), ex, false, share, rf);
        let rfa = load_fields_rf(rest, ex, false, rf);
        let next = bs.subrange(rest, n);
        match tfp(2 * (ex + rest)) {
            Temporary::Register(r) => {
                let t1 = if !share { nf(release_effect(ta, rd(ta, r))) } else { ta };
                let t2 = if !last { nf(load_field_effect(t1, tfp(2 * (ex + n)), r, 48int)) } else { t1 };
                nf(load_values_iter(t2, next, ex + rest, r, cap, share, next.len() as int))
            },
            Temporary::Spill(k) => {
                let r = Register(4);
                let tb = if !rfa { stm(ta, slot_addr(ta, 0), ta.regs[4]) } else { ta };
                let tc = wr(tb, r, tb.mem[slot_addr(tb, k.0 as int)]);
                let t1 = if !share { nf(release_effect(tc, rd(tc, r))) } else { tc };
                let t2 = if !last { nf(load_field_effect(t1, tfp(2 * (ex + n)), r, 48int)) } else { t1 };
                let t3 = nf(load_values_iter(t2, next, ex + rest, r, cap, share, next.len() as int));
                if last { wr(t3, r, t3.mem[slot_addr(t3, 0)]) } else { t3 }
            },
        }
    }
}

/// effect of `Memory::load` once the pointer to the first block is in register `mb`: the reference count
/// decides between taking the object apart (count 0: blocks released, children moved) and copying it
/// (count > 0: count decremented, children shared)
pub open spec fn load_register_effect(t: St, mb: Register, bs: Seq<ContextBinding>, ex: int) -> St {
    let p = rd(t, mb) as int;
    let c = t.mem[p];
    if c == 0 {
        load_fields_effect(t, bs, ex, true, false, false)
    } else {
        load_fields_effect(nf(stm(t, p, wadd(c, i2u(-1i64)))), bs, ex, true, true, false)
    }
}

pub open spec fn load_effect(t: St, bs: Seq<ContextBinding>, ex: int) -> St {
    if bs.len() == 0 { t } else {
        match tfp(2 * ex) {
            Temporary::Register(r) => load_register_effect(t, r, bs, ex),
            Temporary::Spill(k) => {
                let t1 = wr(t, Register(1), t.mem[slot_addr(t, k.0 as int)]);
                load_register_effect(t1, Register(1), bs, ex)
            },
        }
    }
}

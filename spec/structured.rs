// ---- spec/structured.rs : semantics of structured code fragments with forward branches (A-ITE) ----
// `run` (spec/isa_*.rs) is the data semantics of FALLING THROUGH an instruction list.  The memory
// code contains the two label patterns emitted by `skip_if_zero` and `if_zero_then_else`; for lists
// that contain them we use `srun`, characterised by
//   (S0) srun([], s) = s
//   (S1) srun(a ++ [c], s) = step(c, srun(a, s))          for every non-control instruction c
//   (S2) the two pattern axioms in the backend's memory contract file (if-then-else over fresh labels)
// (S0)-(S2) are ASSUMED (assumption A-ITE of DESIGN.md): a PC-based semantics with label resolution
// satisfies them whenever the labels produced by `fresh_label` are fresh (A-LBL) and the branches are
// themselves closed fragments, which holds by construction of the memory code.
pub uninterp spec fn srun(code: Seq<Code>, s: St) -> St;

#[verifier::external_body]
pub broadcast proof fn axiom_srun_empty(s: St)
    ensures #[trigger] srun(Seq::<Code>::empty(), s) == s,
{
}

#[verifier::external_body]
pub broadcast proof fn axiom_srun_push(a: Seq<Code>, c: Code, s: St)
    requires !is_control(c),
    ensures #[trigger] srun(a.push(c), s) == step(c, srun(a, s)),
{
}

/// `new` extends `old` by encodable instructions (pointwise form)
pub open spec fn ext_enc(old: Seq<Code>, new: Seq<Code>) -> bool { appended_enc(old, new) }

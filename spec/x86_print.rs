// ---- C13: the save / call / restore sequence around the print runtime (x86-64) --------------------
// `sv` is the list of registers to evacuate (caller-saved registers 4..11 holding live values, strictly
// increasing), `fb` the first free callee-saved register (>= 12). The first `backups(fb, n)` registers of
// `sv` are parked in fb, fb+1, .. (< 16), the others are pushed; one more word is reserved when the number
// of pushes is even, because the body runs with rsp = 8 (mod 16) and a CALL needs rsp = 0 (mod 16).

pub open spec fn backups(fb: int, n: int) -> int {
    let avail = if fb <= 16 { 16 - fb } else { 0 };
    if n < avail { n } else { avail }
}

pub open spec fn pad(fb: int, n: int) -> int { if (n - backups(fb, n)) % 2 == 0 { 8 } else { 0 } }

pub open spec fn saves_ok(fb: int, sv: Seq<usize>) -> bool {
    &&& 12 <= fb
    &&& sv.len() <= 8
    &&& forall|j: int| 0 <= j < sv.len() ==> 4 <= #[trigger] sv[j] <= 11
    &&& forall|j: int, l: int| 0 <= j < l < sv.len() ==> sv[j] < sv[l]
}

/// r occurs in sv[lo..hi]
pub open spec fn in_range(sv: Seq<usize>, lo: int, hi: int, r: int) -> bool {
    exists|j: int| lo <= j < hi && #[trigger] sv[j] == r
}

/// state a after parking sv[0..k1] and pushing sv[u..k2] (u = backups), relative to the state b before
pub open spec fn saved_partial(a: St, b: St, fb: int, sv: Seq<usize>, k1: int, k2: int) -> bool {
    let u = backups(fb, sv.len() as int);
    let sp0 = b.regs[0] as int;
    &&& a.regs[0] as int == sp0 - 8 * (k2 - u)
    &&& forall|j: int| 0 <= j < k1 ==> a.regs[fb + j] == b.regs[#[trigger] sv[j] as int]
    &&& forall|j: int| u <= j < k2 ==> a.mem[sp0 - 8 * (j - u + 1)] == b.regs[#[trigger] sv[j] as int]
    &&& forall|r: int| r != 0 && !(fb <= r < fb + k1) ==> #[trigger] a.regs[r] == b.regs[r]
    &&& forall|m: int| (m >= sp0 || m < sp0 - 8 * (k2 - u)) ==> #[trigger] a.mem[m] == b.mem[m]
    &&& a.ok == b.ok && a.calls == b.calls
}

/// postcondition of save_caller_save_registers
pub open spec fn saved(a: St, b: St, fb: int, sv: Seq<usize>) -> bool {
    let n = sv.len() as int;
    let u = backups(fb, n);
    let sp0 = b.regs[0] as int;
    &&& a.regs[0] as int == sp0 - 8 * (n - u) - pad(fb, n)
    &&& forall|j: int| 0 <= j < u ==> a.regs[fb + j] == b.regs[#[trigger] sv[j] as int]
    &&& forall|j: int| u <= j < n ==> a.mem[sp0 - 8 * (j - u + 1)] == b.regs[#[trigger] sv[j] as int]
    &&& forall|r: int| r != 0 && !(fb <= r < fb + u) ==> #[trigger] a.regs[r] == b.regs[r]
    &&& forall|m: int| (m >= sp0 || m < sp0 - 8 * (n - u)) ==> #[trigger] a.mem[m] == b.mem[m]
    &&& a.ok == b.ok && a.calls == b.calls
}

/// state a after moving back sv[0..k1] and popping sv[k2..n], relative to the state b before the restore
pub open spec fn restored_partial(a: St, b: St, fb: int, sv: Seq<usize>, k1: int, k2: int, padded: int) -> bool {
    let n = sv.len() as int;
    let sp = b.regs[0] as int;
    &&& a.regs[0] as int == sp + padded + 8 * (n - k2)
    &&& forall|j: int| 0 <= j < k1 ==> a.regs[#[trigger] sv[j] as int] == b.regs[fb + j]
    &&& forall|j: int| k2 <= j < n ==> a.regs[#[trigger] sv[j] as int] == b.mem[sp + padded + 8 * (n - 1 - j)]
    &&& forall|r: int| r != 0 && !in_range(sv, 0, k1, r) && !in_range(sv, k2, n, r) ==> #[trigger] a.regs[r] == b.regs[r]
    &&& forall|m: int| #[trigger] a.mem[m] == b.mem[m]
    &&& a.ok == b.ok && a.calls == b.calls
}

/// postcondition of restore_caller_save_registers
pub open spec fn restored(a: St, b: St, fb: int, sv: Seq<usize>) -> bool {
    let n = sv.len() as int;
    restored_partial(a, b, fb, sv, backups(fb, n), backups(fb, n), pad(fb, n))
}

/// C13 for the print call: postcondition of print_i64 on the machine state. `a` after, `b` before.
pub open spec fn printed(a: St, b: St, ctx: Seq<ContextBinding>, source: Temporary, name: Seq<char>) -> bool {
    let sp0 = b.regs[0] as int;
    // exactly one external call, of the print routine, with the value of the source as argument
    &&& a.calls == b.calls.push((name, get(b, source)))
    // it happened with an aligned stack pointer, and no push/pop left the address space
    &&& a.ok == b.ok
    // stack pointer, heap and free pointers
    &&& a.regs[0] == b.regs[0] && a.regs[2] == b.regs[2] && a.regs[3] == b.regs[3]
    // every live variable keeps its value: second temporary always, first temporary unless external
    &&& forall|i: int| 0 <= i < ctx.len() ==> get(a, #[trigger] tfp(2 * i + 1)) == get(b, tfp(2 * i + 1))
    &&& forall|i: int| 0 <= i < ctx.len() && !is_ext(ctx[i]) ==> get(a, #[trigger] tfp(2 * i)) == get(b, tfp(2 * i))
    // the whole stack frame at and above the stack pointer (all spill slots) is untouched
    &&& forall|m: int| m >= sp0 ==> #[trigger] a.mem[m] == b.mem[m]
}

/// every register of the evacuation list is back after save; <argument into rdi>; call; restore
pub proof fn lemma_saved_registers_back(p: St, m: St, c: St, a: St, fb: int, sv: Seq<usize>, name: Seq<char>, arg: u64)
    requires
        saves_ok(fb, sv),
        4096 <= p.regs[0], p.regs[0] + 4096 < pow64(), (p.regs[0] as int) % 16 == 8,
        saved(m, p, fb, sv),
        c == call_model(wr(m, Register(7), arg), name),
        restored(a, c, fb, sv),
    ensures
        a.regs[0] == p.regs[0],
        a.ok == p.ok,
        a.calls == p.calls.push((name, arg)),
        forall|j: int| 0 <= j < sv.len() ==> a.regs[#[trigger] sv[j] as int] == p.regs[sv[j] as int],
        // callee-saved registers that were not used as backups, and the reserved ones
        forall|r: int| (r == 2 || r == 3 || (12 <= r < 16 && !(fb <= r < fb + backups(fb, sv.len() as int)))) ==> #[trigger] a.regs[r] == p.regs[r],
        forall|x: int| x >= p.regs[0] as int ==> #[trigger] a.mem[x] == p.mem[x],
{
    let n = sv.len() as int;
    let u = backups(fb, n);
    let sp0 = p.regs[0] as int;
    let spc = sp0 - 8 * (n - u) - pad(fb, n);
    assert(m.regs[0] as int == spc);
    assert(c.regs[0] == m.regs[0]);
    assert(spc % 16 == 0) by {
        assert(0 <= n - u <= 8);
    }
    assert(c.ok == p.ok);
    assert(a.regs[0] as int == spc + pad(fb, n) + 8 * (n - u));
    assert forall|j: int| 0 <= j < sv.len() implies a.regs[#[trigger] sv[j] as int] == p.regs[sv[j] as int] by {
        if j < u {
            assert(a.regs[sv[j] as int] == c.regs[fb + j]);
            assert(c.regs[fb + j] == m.regs[fb + j]);
            assert(m.regs[fb + j] == p.regs[sv[j] as int]);
        } else {
            let x = spc + pad(fb, n) + 8 * (n - 1 - j);
            assert(a.regs[sv[j] as int] == c.mem[x]);
            assert(x == sp0 - 8 * (j - u + 1));
            assert(x >= spc);
            assert(c.mem[x] == m.mem[x]);
            assert(m.mem[x] == p.regs[sv[j] as int]);
        }
    }
    assert forall|r: int| (r == 2 || r == 3 || (12 <= r < 16 && !(fb <= r < fb + u))) implies #[trigger] a.regs[r] == p.regs[r] by {
        assert(!in_range(sv, 0, u, r));
        assert(!in_range(sv, u, n, r));
        assert(a.regs[r] == c.regs[r]);
        assert(c.regs[r] == m.regs[r]);
    }
    assert forall|x: int| x >= sp0 implies #[trigger] a.mem[x] == p.mem[x] by {
        assert(a.mem[x] == c.mem[x]);
        assert(c.mem[x] == m.mem[x]);
    }
}

/// C13 for the print call, from the contracts of the pieces
pub proof fn lemma_print_sequence(b: St, p: St, m: St, c: St, a: St, ctx: Seq<ContextBinding>, source: Temporary, name: Seq<char>, fb: int, sv: Seq<usize>)
    requires
        ctx.len() <= 130,
        var_tmp(source),
        source matches Temporary::Register(r) ==> r.0 < 2 * ctx.len() + 4,
        fb == (if 2 * ctx.len() + 4 > 12 { 2 * ctx.len() + 4 } else { 12 }),
        sv == expected_saves(ctx, if ctx.len() < 4 { ctx.len() as int } else { 4 }),
        4096 <= b.regs[0], b.regs[0] + 4096 < pow64(), (b.regs[0] as int) % 16 == 8,
        // before the evacuation: the argument is in rcx if it was spilled; nothing else changed
        eqv(p, b, iset![1int], ISet::<int>::empty()),
        source is Spill ==> p.regs[1] == get(b, source),
        saved(m, p, fb, sv),
        c == call_model(wr(m, Register(7), match source { Temporary::Register(r) => m.regs[r.0 as int], Temporary::Spill(_) => m.regs[1] }), name),
        restored(a, c, fb, sv),
    ensures
        printed(a, b, ctx, source, name),
{
    let k = if ctx.len() < 4 { ctx.len() as int } else { 4 };
    lemma_expected_saves(ctx, k);
    assert(saves_ok(fb, sv));
    let arg = match source { Temporary::Register(r) => m.regs[r.0 as int], Temporary::Spill(_) => m.regs[1] };
    lemma_saved_registers_back(p, m, c, a, fb, sv, name, arg);
    let u = backups(fb, sv.len() as int);
    assert(arg == get(b, source)) by {
        match source {
            Temporary::Register(r) => {
                assert(m.regs[r.0 as int] == p.regs[r.0 as int]);
            },
            Temporary::Spill(_) => {
                assert(m.regs[1] == p.regs[1]);
            },
        }
    }
    assert forall|i: int| 0 <= i < ctx.len() implies get(a, #[trigger] tfp(2 * i + 1)) == get(b, tfp(2 * i + 1)) by {
        if i < 4 {
            assert(sv.contains(snd_reg(i)));
            let w = choose|w: int| 0 <= w < sv.len() && sv[w] == snd_reg(i);
            assert(a.regs[sv[w] as int] == p.regs[sv[w] as int]);
        } else if i < 6 {
            let r = 2 * i + 5;
            assert(12 <= r < 16 && r < fb);
            assert(a.regs[r] == p.regs[r]);
        } else {
        }
    }
    assert forall|i: int| 0 <= i < ctx.len() && !is_ext(ctx[i]) implies get(a, #[trigger] tfp(2 * i)) == get(b, tfp(2 * i)) by {
        if i < 4 {
            assert(sv.contains(fst_reg(i)));
            let w = choose|w: int| 0 <= w < sv.len() && sv[w] == fst_reg(i);
            assert(a.regs[sv[w] as int] == p.regs[sv[w] as int]);
        } else if i < 6 {
            let r = 2 * i + 4;
            assert(12 <= r < 16 && r < fb);
            assert(a.regs[r] == p.regs[r]);
        } else {
        }
    }
}

// ---- spec/isa_rv64.rs : RISC-V (RV64IM + pseudo-instructions) semantics for the `Code` enum of axcut2rv64 (trusted, T1) ----
// From the RISC-V unprivileged ISA manual and the assembler manual's pseudo-instruction list the
// source links to. LW/SW are read as 64-bit accesses (LD/SD), as property C08 states. x0 is hardwired to 0.
// Immediates are unconstrained (the backend documents that it does not model immediate sizes).

pub struct St {
    pub regs: Tot,
    pub mem: Tot,
    pub ok: bool,
}

pub open spec fn rd(s: St, r: Register) -> u64 { if r.0 == 0 { 0 } else { s.regs[r.0 as int] } }

pub open spec fn wr(s: St, r: Register, v: u64) -> St {
    if r.0 == 0 { s } else { St { regs: s.regs.insert(r.0 as int, v), ..s } }
}

pub open spec fn imm(i: i64) -> u64 { i2u(i) }

pub open spec fn ea(s: St, b: Register, off: i64) -> int { rd(s, b) as int + off as int }

/// DIV: x / 0 = -1 (all ones); MIN / -1 = MIN; otherwise round toward zero
pub open spec fn rvdiv(a: u64, b: u64) -> u64 {
    if b == 0 { 0xffff_ffff_ffff_ffff } else if !div_defined(a, b) { a } else { wdiv(a, b) }
}

/// REM: x % 0 = x; MIN % -1 = 0; otherwise sign of the dividend
pub open spec fn rvrem(a: u64, b: u64) -> u64 {
    if b == 0 { a } else if !div_defined(a, b) { 0 } else { wrem(a, b) }
}

pub open spec fn step(c: Code, s: St) -> St {
    match c {
        Code::ADD(d, a, b) => wr(s, d, wadd(rd(s, a), rd(s, b))),
        Code::ADDI(d, a, i) => wr(s, d, wadd(rd(s, a), imm(i))),
        Code::SUB(d, a, b) => wr(s, d, wsub(rd(s, a), rd(s, b))),
        Code::MUL(d, a, b) => wr(s, d, wmul(rd(s, a), rd(s, b))),
        Code::DIV(d, a, b) => wr(s, d, rvdiv(rd(s, a), rd(s, b))),
        Code::REM(d, a, b) => wr(s, d, rvrem(rd(s, a), rd(s, b))),
        // with rd = x0 these are plain jumps; a link register other than x0 is not used by the backend
        Code::JAL(d, _) => s,
        Code::JALR(d, _, _) => s,
        Code::LA(d, l) => wr(s, d, label_addr(l@)),
        Code::LI(d, i) => wr(s, d, imm(i)),
        Code::MV(d, a) => wr(s, d, rd(s, a)),
        Code::LW(d, b, o) => wr(s, d, s.mem[ea(s, b, o)]),
        Code::SW(r, b, o) => St { mem: s.mem.insert(ea(s, b, o), rd(s, r)), ..s },
        Code::BEQ(_, _, _) => s,
        Code::BNE(_, _, _) => s,
        Code::BLT(_, _, _) => s,
        Code::BLE(_, _, _) => s,
        Code::BGT(_, _, _) => s,
        Code::BGE(_, _, _) => s,
        Code::LAB(_) => s,
        Code::COMMENT(_) => s,
    }
}

pub open spec fn branch_taken(c: Code, s: St) -> Option<bool> {
    match c {
        Code::BEQ(a, b, _) => Some(rd(s, a) == rd(s, b)),
        Code::BNE(a, b, _) => Some(rd(s, a) != rd(s, b)),
        Code::BLT(a, b, _) => Some(slt(rd(s, a), rd(s, b))),
        Code::BLE(a, b, _) => Some(sle(rd(s, a), rd(s, b))),
        Code::BGT(a, b, _) => Some(slt(rd(s, b), rd(s, a))),
        Code::BGE(a, b, _) => Some(sle(rd(s, b), rd(s, a))),
        _ => None,
    }
}

pub open spec fn branch_target(c: Code) -> Option<Seq<char>> {
    match c {
        Code::BEQ(_, _, l) => Some(l@),
        Code::BNE(_, _, l) => Some(l@),
        Code::BLT(_, _, l) => Some(l@),
        Code::BLE(_, _, l) => Some(l@),
        Code::BGT(_, _, l) => Some(l@),
        Code::BGE(_, _, l) => Some(l@),
        Code::JAL(_, l) => Some(l@),
        _ => None,
    }
}

/// instructions that transfer control (their data effect under `run` is the fall-through one)
pub open spec fn is_control(c: Code) -> bool {
    match c {
        Code::JAL(_, _) => true,
        Code::JALR(_, _, _) => true,
        Code::BEQ(_, _, _) => true,
        Code::BNE(_, _, _) => true,
        Code::BLT(_, _, _) => true,
        Code::BLE(_, _, _) => true,
        Code::BGT(_, _, _) => true,
        Code::BGE(_, _, _) => true,
        Code::LAB(_) => true,
        _ => false,
    }
}

pub open spec fn reg_ok(r: Register) -> bool { r.0 < 32 }

/// register numbers in range; a jump must not link (rd = x0)
pub open spec fn encodable(c: Code) -> bool {
    match c {
        Code::ADD(d, a, b) => reg_ok(d) && reg_ok(a) && reg_ok(b),
        Code::ADDI(d, a, _) => reg_ok(d) && reg_ok(a),
        Code::SUB(d, a, b) => reg_ok(d) && reg_ok(a) && reg_ok(b),
        Code::MUL(d, a, b) => reg_ok(d) && reg_ok(a) && reg_ok(b),
        Code::DIV(d, a, b) => reg_ok(d) && reg_ok(a) && reg_ok(b),
        Code::REM(d, a, b) => reg_ok(d) && reg_ok(a) && reg_ok(b),
        Code::JAL(d, _) => d.0 == 0,
        Code::JALR(d, a, _) => d.0 == 0 && reg_ok(a),
        Code::LA(d, _) => reg_ok(d),
        Code::LI(d, _) => reg_ok(d),
        Code::MV(d, a) => reg_ok(d) && reg_ok(a),
        Code::LW(d, b, o) => reg_ok(d) && reg_ok(b) && o % 8 == 0,
        Code::SW(r, b, o) => reg_ok(r) && reg_ok(b) && o % 8 == 0,
        Code::BEQ(a, b, _) => reg_ok(a) && reg_ok(b),
        Code::BNE(a, b, _) => reg_ok(a) && reg_ok(b),
        Code::BLT(a, b, _) => reg_ok(a) && reg_ok(b),
        Code::BLE(a, b, _) => reg_ok(a) && reg_ok(b),
        Code::BGT(a, b, _) => reg_ok(a) && reg_ok(b),
        Code::BGE(a, b, _) => reg_ok(a) && reg_ok(b),
        _ => true,
    }
}

pub open spec fn encoded_len_fixed_jump() -> int { 4 }

pub open spec fn run(code: Seq<Code>, s: St) -> St
    decreases code.len(),
{
    if code.len() == 0 { s } else { step(code.last(), run(code.drop_last(), s)) }
}

pub broadcast proof fn lemma_run_push(a: Seq<Code>, c: Code, s: St)
    ensures #[trigger] run(a.push(c), s) == step(c, run(a, s)),
{
    assert(a.push(c).drop_last() =~= a);
}

pub broadcast proof fn lemma_run_concat(a: Seq<Code>, b: Seq<Code>, s: St)
    ensures #[trigger] run(a + b, s) == run(b, run(a, s)),
    decreases b.len(),
{
    if b.len() == 0 {
        assert(a + b =~= a);
    } else {
        assert((a + b).drop_last() =~= a + b.drop_last());
        assert((a + b).last() == b.last());
        lemma_run_concat(a, b.drop_last(), s);
    }
}

pub open spec fn valid_tmp(t: Register) -> bool { 1 <= t.0 < 32 }

/// a register that can hold a variable: X4..X31
pub open spec fn var_tmp(t: Register) -> bool { 4 <= t.0 < 32 }

pub open spec fn get(s: St, t: Register) -> u64 { rd(s, t) }

pub open spec fn set(s: St, t: Register, v: u64) -> St { wr(s, t, v) }

pub open spec fn eqv(a: St, b: St, rex: ISet<int>, mex: ISet<int>) -> bool {
    &&& forall|r: int| !rex.contains(r) ==> #[trigger] a.regs[r] == b.regs[r]
    &&& forall|m: int| !mex.contains(m) ==> #[trigger] a.mem[m] == b.mem[m]
    &&& a.ok == b.ok
}

/// the scratch register X1 only
pub open spec fn eqv_t(a: St, b: St) -> bool { eqv(a, b, iset![1int], ISet::<int>::empty()) }

pub open spec fn eqv_0(a: St, b: St) -> bool { eqv(a, b, ISet::<int>::empty(), ISet::<int>::empty()) }

pub open spec fn appended(old: Seq<Code>, new: Seq<Code>) -> bool {
    &&& old.len() <= new.len()
    &&& forall|i: int| 0 <= i < old.len() ==> #[trigger] new[i] == old[i]
}

pub open spec fn appended_enc(old: Seq<Code>, new: Seq<Code>) -> bool {
    &&& old.len() <= new.len()
    &&& forall|i: int| 0 <= i < old.len() ==> #[trigger] new[i] == old[i]
    &&& forall|i: int| old.len() <= i < new.len() ==> encodable(#[trigger] new[i])
}

pub open spec fn all_enc(c: Seq<Code>) -> bool {
    forall|i: int| 0 <= i < c.len() ==> encodable(#[trigger] c[i])
}

pub open spec fn tn(n: TemporaryNumber) -> int {
    match n { TemporaryNumber::Fst => 0, TemporaryNumber::Snd => 1 }
}

pub open spec fn first_index(b: Seq<ContextBinding>, id: usize) -> int
    decreases b.len(),
{
    if b.len() == 0 { 0 } else if b[0].var.id == id { 0 } else { 1 + first_index(b.subrange(1, b.len() as int), id) }
}

/// the first index is k if position k carries the id and no earlier position does
pub proof fn lemma_first_index(b: Seq<ContextBinding>, id: usize, k: int)
    requires
        0 <= k < b.len(),
        b[k].var.id == id,
        forall|j: int| 0 <= j < k ==> (#[trigger] b[j]).var.id != id,
    ensures
        first_index(b, id) == k,
    decreases k,
{
    if k > 0 {
        let t = b.subrange(1, b.len() as int);
        assert(t[k - 1] == b[k]);
        assert forall|j: int| 0 <= j < k - 1 implies (#[trigger] t[j]).var.id != id by {
            assert(t[j] == b[j + 1]);
        }
        lemma_first_index(t, id, k - 1);
        assert(b[0].var.id != id);
    }
}

pub open spec fn jumps_to(c: Code, s: St, target: u64) -> bool {
    match c {
        Code::JALR(d, a, i) => d.0 == 0 && reg_ok(a) && wadd(rd(s, a), imm(i)) == target,
        _ => false,
    }
}

pub open spec fn is_fixed_jump(c: Code) -> bool { c is JAL }

/// extensional equality of machine states; `lemma_st_eq` turns it into `==`
pub open spec fn st_eq(a: St, b: St) -> bool {
    tot_eq(a.regs, b.regs) && tot_eq(a.mem, b.mem) && a.ok == b.ok
}

pub broadcast proof fn lemma_st_eq(a: St, b: St)
    requires #[trigger] st_eq(a, b),
    ensures a == b,
{
    lemma_tot_eq(a.regs, b.regs);
    lemma_tot_eq(a.mem, b.mem);
}

// ---- spec/a64_memory.rs : vocabulary of the AArch64 memory-management contracts (C09, C10) ----
// heap = X0: head of the immediately reusable free list; free = X1: deferred free list / frontier
// X2 = TEMP, X3 = TEMP2 (holds the reference count while it is updated)

pub open spec fn cmp0(t: St, a: u64) -> St { St { fl: Some((a, 0u64)), ..t } }

/// (A-ITE, assumed)   <pre> ; b.eq L ; <body> ; L:
#[verifier::external_body]
pub broadcast proof fn axiom_skip_pattern(pre: Seq<Code>, l1: String, l2: String, body: Seq<Code>, s: St)
    requires l1@ == l2@,
    ensures
        #[trigger] srun((pre.push(Code::BEQ(l1)) + body).push(Code::LAB(l2)), s) == (match srun(pre, s).fl {
            Some((a, b)) => if a == b { srun(pre, s) } else { srun(body, srun(pre, s)) },
            None => arbitrary(),
        }),
{
}

/// (A-ITE, assumed)   <pre> ; b.eq L1 ; <else> ; b L2 ; L1: ; <then> ; L2:
#[verifier::external_body]
pub broadcast proof fn axiom_ite_pattern(pre: Seq<Code>, l1: String, l1b: String, l2: String, l2b: String, thn: Seq<Code>, els: Seq<Code>, s: St)
    requires l1@ == l1b@, l2@ == l2b@,
    ensures
        #[trigger] srun((((pre.push(Code::BEQ(l1)) + els).push(Code::B(l2)).push(Code::LAB(l1b))) + thn).push(Code::LAB(l2b)), s) == (match srun(pre, s).fl {
            Some((a, b)) => if a == b { srun(thn, srun(pre, s)) } else { srun(els, srun(pre, s)) },
            None => arbitrary(),
        }),
{
}

pub open spec fn nf(t: St) -> St { St { fl: None, ..t } }

pub open spec fn X(n: int) -> Register { Register::X(n as usize) }

/// dropping one reference to the block at `p` (p != 0), the count having been loaded into X3
pub open spec fn erase_valid(t: St, p: u64) -> St {
    let rc = t.mem[p as int];
    if rc == 0 {
        St { mem: t.mem.insert(p as int, t.regs[1]), regs: t.regs.insert(3, rc).insert(1, p), ..t }
    } else {
        St { mem: t.mem.insert(p as int, wsub(rc, 1)), regs: t.regs.insert(3, wsub(rc, 1)), ..t }
    }
}

pub open spec fn erase_effect(t: St, p: u64) -> St { if p == 0 { t } else { erase_valid(t, p) } }

pub open spec fn share_effect(t: St, p: u64, n: int) -> St {
    if p == 0 { t } else {
        let v = wadd(t.mem[p as int], i2u(n as i64));
        St { mem: t.mem.insert(p as int, v), regs: t.regs.insert(3, v), ..t }
    }
}

pub open spec fn release_effect(t: St, p: u64) -> St {
    St { mem: t.mem.insert(p as int, t.regs[0]), regs: t.regs.insert(0, p), ..t }
}

pub open spec fn erase_block_effect(t0: St, to_erase: Temporary) -> St {
    let p = get(t0, to_erase);
    let t = if to_erase is Spill { St { regs: t0.regs.insert(2, p), ..t0 } } else { t0 };
    erase_effect(t, p)
}

pub open spec fn share_block_effect(t0: St, to_share: Temporary, n: int) -> St {
    let p = get(t0, to_share);
    let t = if to_share is Spill { St { regs: t0.regs.insert(2, p), ..t0 } } else { t0 };
    share_effect(t, p, n)
}

pub open spec fn erase_fields_spec(t: St, r: Register, k: int) -> St
    decreases k,
{
    if k <= 0 {
        t
    } else {
        let t1 = erase_fields_spec(t, r, k - 1);
        let c = t1.mem[rd(t1, r) as int + 16 + 16 * (k - 1)];
        erase_effect(St { regs: t1.regs.insert(2, c), ..t1 }, c)
    }
}

/// effect of `acquire_block(new_block)` (flags aside); see spec/x86_memory.rs for the three cases.
/// Case (3) - both list links zero - is the ONLY place where the frontier X1 receives an address
/// that was not already stored in the machine state (old X1 + one block of 64 bytes) (C10).
pub open spec fn acquire_effect(t0: St, new_block: Temporary) -> St {
    let h0 = t0.regs[0];
    let t1 = if new_block is Spill { set(St { regs: t0.regs.insert(2, h0), ..t0 }, new_block, h0) } else { set(t0, new_block, h0) };
    let next = t1.mem[t1.regs[0] as int];
    let t2 = St { regs: t1.regs.insert(0, next), ..t1 };
    if next != 0 {
        St { mem: t2.mem.insert(h0 as int, 0), ..t2 }
    } else {
        let f0 = t2.regs[1];
        let link = t2.mem[f0 as int];
        let t3 = St { regs: t2.regs.insert(0, f0).insert(1, link), ..t2 };
        if link == 0 {
            St { regs: t3.regs.insert(1, wadd(f0, 64)), ..t3 }
        } else {
            erase_fields_spec(St { mem: t3.mem.insert(f0 as int, 0), ..t3 }, Register::X(0), 3)
        }
    }
}

pub open spec fn store_field_effect(t: St, tmp: Temporary, mb: Register, off: int) -> St {
    let v = get(t, tmp);
    let t1 = if tmp is Spill { St { regs: t.regs.insert(2, v), ..t } } else { t };
    St { mem: t1.mem.insert(rd(t, mb) as int + off, v), ..t1 }
}

pub open spec fn load_field_effect(t: St, tmp: Temporary, mb: Register, off: int) -> St {
    let v = t.mem[rd(t, mb) as int + off];
    match tmp {
        Temporary::Register(r) => wr(t, r, v),
        Temporary::Spill(_) => set(St { regs: t.regs.insert(2, v), ..t }, tmp, v),
    }
}


pub open spec fn store_value_effect(t: St, ext: bool, fst: Temporary, snd: Temporary, mb: Register, k: int) -> St {
    let t1 = store_field_effect(t, snd, mb, 16 + 16 * k + 8);
    if ext { St { mem: t1.mem.insert(rd(t1, mb) as int + 16 + 16 * k, 0), ..t1 } } else { store_field_effect(t1, fst, mb, 16 + 16 * k) }
}

pub open spec fn load_value_effect(t: St, ext: bool, fst: Temporary, snd: Temporary, mb: Register, k: int, share: bool) -> St {
    let t1 = load_field_effect(t, snd, mb, 16 + 16 * k + 8);
    if ext {
        t1
    } else {
        let t2 = load_field_effect(t1, fst, mb, 16 + 16 * k);
        if share { share_effect(t2, get(t2, fst), 1) } else { t2 }
    }
}

// ---- multi-field stores / loads (one block) -----------------------------------------------------------

/// zero the pointer slots of fields 0..k of block `mb`
pub open spec fn store_zeros_effect(t: St, mb: Register, k: int) -> St
    decreases k,
{
    if k <= 0 { t } else {
        let t1 = store_zeros_effect(t, mb, k - 1);
        St { mem: t1.mem.insert(rd(t1, mb) as int + 16 + 16 * (k - 1), 0), ..t1 }
    }
}

/// the last `i` bindings of `bs` stored, right to left, into fields ff-1, ff-2, .. of block `mb`; the
/// variable `bs[j]` lives at environment position `rem + j`
pub open spec fn store_values_iter(t: St, bs: Seq<ContextBinding>, rem: int, mb: Register, ff: int, i: int) -> St
    decreases i,
{
    if i <= 0 { t } else {
        let t1 = store_values_iter(t, bs, rem, mb, ff, i - 1);
        let j = bs.len() - i;
        store_value_effect(t1, is_ext(bs[j]), tfp(2 * (rem + j)), tfp(2 * (rem + j) + 1), mb, ff - i)
    }
}

/// effect of `store_values`: all bindings stored into the last fields, the unused first fields marked with null
pub open spec fn store_values_effect(t: St, bs: Seq<ContextBinding>, rem: int, mb: Register, ff: int) -> St {
    store_zeros_effect(store_values_iter(t, bs, rem, mb, ff, bs.len() as int), mb, ff - bs.len())
}

/// the last `i` bindings of `bs` loaded, right to left, from fields ff-1, ff-2, .. of block `mb`
pub open spec fn load_values_iter(t: St, bs: Seq<ContextBinding>, ex: int, mb: Register, ff: int, share: bool, i: int) -> St
    decreases i,
{
    if i <= 0 { t } else {
        let t1 = load_values_iter(t, bs, ex, mb, ff, share, i - 1);
        let j = bs.len() - i;
        load_value_effect(t1, is_ext(bs[j]), tfp(2 * (ex + j)), tfp(2 * (ex + j) + 1), mb, ff - i, share)
    }
}

/// zeroing fields neither reads nor writes the flags, and does not move SP
pub proof fn lemma_store_zeros_nf(t: St, mb: Register, k: int)
    ensures
        st_eq(store_zeros_effect(nf(t), mb, k), nf(store_zeros_effect(t, mb, k))),
        store_zeros_effect(t, mb, k).sp == t.sp,
    decreases k,
{
    if k > 0 {
        lemma_store_zeros_nf(t, mb, k - 1);
        lemma_st_eq(store_zeros_effect(nf(t), mb, k - 1), nf(store_zeros_effect(t, mb, k - 1)));
    }
}

// ---- spec/a64_memory.rs : vocabulary of the AArch64 memory-management contracts (C09, C10) ----
// heap = X0: head of the immediately reusable free list; free = X1: deferred free list / frontier
// X2 = TEMP, X3 = TEMP2 (holds the reference count while it is updated)

pub open spec fn cmp0(t: St, a: u64) -> St { St { fl: Some((a, 0u64)), ..t } }

/// (A-ITE, assumed)   <pre> ; b.eq L ; <body> ; L:
#[verifier::external_body]
pub broadcast proof fn axiom_skip_pattern(pre: Seq<Code>, l1: String, l2: String, body: Seq<Code>, s: St)
    requires l1@ == l2@,
    ensures
        #[trigger] srun((pre.push(Code::BEQ(l1)) + body).push(Code::LAB(l2)), s) == (match srun(pre, s).fl {
            Some((a, b)) => if a == b { srun(pre, s) } else { srun(body, srun(pre, s)) },
            None => arbitrary(),
        }),
{
}

/// (A-ITE, assumed)   <pre> ; b.eq L1 ; <else> ; b L2 ; L1: ; <then> ; L2:
#[verifier::external_body]
pub broadcast proof fn axiom_ite_pattern(pre: Seq<Code>, l1: String, l1b: String, l2: String, l2b: String, thn: Seq<Code>, els: Seq<Code>, s: St)
    requires l1@ == l1b@, l2@ == l2b@,
    ensures
        #[trigger] srun((((pre.push(Code::BEQ(l1)) + els).push(Code::B(l2)).push(Code::LAB(l1b))) + thn).push(Code::LAB(l2b)), s) == (match srun(pre, s).fl {
            Some((a, b)) => if a == b { srun(thn, srun(pre, s)) } else { srun(els, srun(pre, s)) },
            None => arbitrary(),
        }),
{
}

pub open spec fn nf(t: St) -> St { St { fl: None, ..t } }

pub open spec fn X(n: int) -> Register { Register::X(n as usize) }

/// dropping one reference to the block at `p` (p != 0), the count having been loaded into X3
pub open spec fn erase_valid(t: St, p: u64) -> St {
    let rc = t.mem[p as int];
    if rc == 0 {
        St { mem: t.mem.insert(p as int, t.regs[1]), regs: t.regs.insert(3, rc).insert(1, p), ..t }
    } else {
        St { mem: t.mem.insert(p as int, wsub(rc, 1)), regs: t.regs.insert(3, wsub(rc, 1)), ..t }
    }
}

pub open spec fn erase_effect(t: St, p: u64) -> St { if p == 0 { t } else { erase_valid(t, p) } }

pub open spec fn share_effect(t: St, p: u64, n: int) -> St {
    if p == 0 { t } else {
        let v = wadd(t.mem[p as int], i2u(n as i64));
        St { mem: t.mem.insert(p as int, v), regs: t.regs.insert(3, v), ..t }
    }
}

pub open spec fn release_effect(t: St, p: u64) -> St {
    St { mem: t.mem.insert(p as int, t.regs[0]), regs: t.regs.insert(0, p), ..t }
}

pub open spec fn erase_block_effect(t0: St, to_erase: Temporary) -> St {
    let p = get(t0, to_erase);
    let t = if to_erase is Spill { St { regs: t0.regs.insert(2, p), ..t0 } } else { t0 };
    erase_effect(t, p)
}

pub open spec fn share_block_effect(t0: St, to_share: Temporary, n: int) -> St {
    let p = get(t0, to_share);
    let t = if to_share is Spill { St { regs: t0.regs.insert(2, p), ..t0 } } else { t0 };
    share_effect(t, p, n)
}

pub open spec fn erase_fields_spec(t: St, r: Register, k: int) -> St
    decreases k,
{
    if k <= 0 {
        t
    } else {
        let t1 = erase_fields_spec(t, r, k - 1);
        let c = t1.mem[rd(t1, r) as int + 16 + 16 * (k - 1)];
        erase_effect(St { regs: t1.regs.insert(2, c), ..t1 }, c)
    }
}

/// effect of `acquire_block(new_block)` (flags aside); see spec/x86_memory.rs for the three cases.
/// Case (3) - both list links zero - is the ONLY place where the frontier X1 receives an address
/// that was not already stored in the machine state (old X1 + one block of 64 bytes) (C10).
pub open spec fn acquire_effect(t0: St, new_block: Temporary) -> St {
    let h0 = t0.regs[0];
    let t1 = if new_block is Spill { set(St { regs: t0.regs.insert(2, h0), ..t0 }, new_block, h0) } else { set(t0, new_block, h0) };
    let next = t1.mem[t1.regs[0] as int];
    let t2 = St { regs: t1.regs.insert(0, next), ..t1 };
    if next != 0 {
        St { mem: t2.mem.insert(h0 as int, 0), ..t2 }
    } else {
        let f0 = t2.regs[1];
        let link = t2.mem[f0 as int];
        let t3 = St { regs: t2.regs.insert(0, f0).insert(1, link), ..t2 };
        if link == 0 {
            St { regs: t3.regs.insert(1, wadd(f0, 64)), ..t3 }
        } else {
            erase_fields_spec(St { mem: t3.mem.insert(f0 as int, 0), ..t3 }, Register::X(0), 3)
        }
    }
}

pub open spec fn store_field_effect(t: St, tmp: Temporary, mb: Register, off: int) -> St {
    let v = get(t, tmp);
    let t1 = if tmp is Spill { St { regs: t.regs.insert(2, v), ..t } } else { t };
    St { mem: t1.mem.insert(rd(t, mb) as int + off, v), ..t1 }
}

pub open spec fn load_field_effect(t: St, tmp: Temporary, mb: Register, off: int) -> St {
    let v = t.mem[rd(t, mb) as int + off];
    match tmp {
        Temporary::Register(r) => wr(t, r, v),
        Temporary::Spill(_) => set(St { regs: t.regs.insert(2, v), ..t }, tmp, v),
    }
}


pub open spec fn store_value_effect(t: St, ext: bool, fst: Temporary, snd: Temporary, mb: Register, k: int) -> St {
    let t1 = store_field_effect(t, snd, mb, 16 + 16 * k + 8);
    if ext { St { mem: t1.mem.insert(rd(t1, mb) as int + 16 + 16 * k, 0), ..t1 } } else { store_field_effect(t1, fst, mb, 16 + 16 * k) }
}

pub open spec fn load_value_effect(t: St, ext: bool, fst: Temporary, snd: Temporary, mb: Register, k: int, share: bool) -> St {
    let t1 = load_field_effect(t, snd, mb, 16 + 16 * k + 8);
    if ext {
        t1
    } else {
        let t2 = load_field_effect(t1, fst, mb, 16 + 16 * k);
        if share { share_effect(t2, get(t2, fst), 1) } else { t2 }
    }
}

// ---- multi-field stores / loads (one block) -----------------------------------------------------------

/// zero the pointer slots of fields 0..k of block `mb`
pub open spec fn store_zeros_effect(t: St, mb: Register, k: int) -> St
    decreases k,
{
    if k <= 0 { t } else {
        let t1 = store_zeros_effect(t, mb, k - 1);
        St { mem: t1.mem.insert(rd(t1, mb) as int + 16 + 16 * (k - 1), 0), ..t1 }
    }
}

/// the last `i` bindings of `bs` stored, right to left, into fields ff-1, ff-2, .. of block `mb`; the
/// variable `bs[j]` lives at environment position `rem + j`
pub open spec fn store_values_iter(t: St, bs: Seq<ContextBinding>, rem: int, mb: Register, ff: int, i: int) -> St
    decreases i,
{
    if i <= 0 { t } else {
        let t1 = store_values_iter(t, bs, rem, mb, ff, i - 1);
        let j = bs.len() - i;
        store_value_effect(t1, is_ext(bs[j]), tfp(2 * (rem + j)), tfp(2 * (rem + j) + 1), mb, ff - i)
    }
}

/// effect of `store_values`: all bindings stored into the last fields, the unused first fields marked with null
pub open spec fn store_values_effect(t: St, bs: Seq<ContextBinding>, rem: int, mb: Register, ff: int) -> St {
    store_zeros_effect(store_values_iter(t, bs, rem, mb, ff, bs.len() as int), mb, ff - bs.len())
}

/// the last `i` bindings of `bs` loaded, right to left, from fields ff-1, ff-2, .. of block `mb`
pub open spec fn load_values_iter(t: St, bs: Seq<ContextBinding>, ex: int, mb: Register, ff: int, share: bool, i: int) -> St
    decreases i,
{
    if i <= 0 { t } else {
        let t1 = load_values_iter(t, bs, ex, mb, ff, share, i - 1);
        let j = bs.len() - i;
        load_value_effect(t1, is_ext(bs[j]), tfp(2 * (ex + j)), tfp(2 * (ex + j) + 1), mb, ff - i, share)
    }
}

/// zeroing fields neither reads nor writes the flags, and does not move SP
pub proof fn lemma_store_zeros_nf(t: St, mb: Register, k: int)
    ensures
        st_eq(store_zeros_effect(nf(t), mb, k), nf(store_zeros_effect(t, mb, k))),
        store_zeros_effect(t, mb, k).sp == t.sp,
    decreases k,
{
    if k > 0 {
        lemma_store_zeros_nf(t, mb, k - 1);
        lemma_st_eq(store_zeros_effect(nf(t), mb, k - 1), nf(store_zeros_effect(t, mb, k - 1)));
    }
}

// ---- objects of any size: linked blocks --------------------------------------------------------------

/// effect of `load_immediate(tmp, 0)`: a register is zeroed directly, a spill slot through the scratch register X2
pub open spec fn load_zero_effect(t: St, tmp: Temporary) -> St {
    match tmp {
        Temporary::Register(r) => wr(t, r, 0),
        Temporary::Spill(k) => { let t1 = wr(t, Register::X(2), 0); St { mem: t1.mem.insert(slot_addr(t1, k.0 as int), 0), ..t1 } },
    }
}

/// effect of `store_fields` on a flag-free state `t`: the bindings `bs` (environment positions rem ..) are
/// stored right to left into a chain of blocks - at most 3 values in the last block, 2 values and the link to
/// the previously filled block in every other one; every filled block is `HEAP` (X0), and after filling it a
/// new block is acquired into the first temporary after the variables still to be stored. An empty object is
/// marked by a null pointer. Every intermediate state is flag-free (`nf`).
pub open spec fn store_fields_effect(t: St, bs: Seq<ContextBinding>, rem: int, last: bool) -> St
    decreases bs.len(),
{
    let n = bs.len() as int;
    if n == 0 {
        if last { nf(load_zero_effect(t, tfp(2 * rem))) } else { t }
    } else {
        let t1 = if !last { nf(store_field_effect(t, tfp(2 * (rem + n)), Register::X(0), 48int)) } else { t };
        let cap = if last { 3int } else { 2int };
        let rest = if n <= cap { 0int } else { n - cap };
        let t2 = nf(store_values_effect(t1, bs.subrange(rest, n), rem + rest, Register::X(0), cap));
        let t3 = nf(acquire_effect(t2, tfp(2 * (rem + rest))));
        store_fields_effect(t3, bs.subrange(0, rest), rem, false)
    }
}

/// does `load_fields` leave the "scratch register evacuated" flag set? (state-independent)
pub open spec fn load_fields_rf(n: int, ex: int, last: bool, rf: bool) -> bool
    decreases n,
{
    if n <= 0 { rf } else {
        let cap = if last { 3int } else { 2int };
        let rest = if n <= cap { 0int } else { n - cap };
        let rfa = load_fields_rf(rest, ex, false, rf);
        if tfp(2 * (ex + rest)) is Spill { true } else { rfa }
    }
}

/// effect of `load_fields` on a flag-free state `t`: the chain of blocks is walked first to last; the pointer
/// to the block holding the values `bs[rest..n]` is in the first temporary after the variables loaded before;
/// a spilled block pointer is worked on in X10, which is evacuated to the reserved spill slot 0 the first time
/// this happens (`rf` tells whether it already happened) and restored after the last block. A block is put on
/// the reusable free list before its fields are read iff the object is not shared (`!share`).
pub open spec fn load_fields_effect(t: St, bs: Seq<ContextBinding>, ex: int, last: bool, share: bool, rf: bool) -> St
    decreases bs.len(),
{
    let n = bs.len() as int;
    if n == 0 { t } else {
        let cap = if last { 3int } else { 2int };
        let rest = if n <= cap { 0int } else { n - cap };
        let ta = load_fields_effect(t, bs.subrange(0, rest), ex, false, share, rf);
        let rfa = load_fields_rf(rest, ex, false, rf);
        let next = bs.subrange(rest, n);
        match tfp(2 * (ex + rest)) {
            Temporary::Register(r) => {
                let t1 = if !share { nf(release_effect(ta, rd(ta, r))) } else { ta };
                let t2 = if !last { nf(load_field_effect(t1, tfp(2 * (ex + n)), r, 48int)) } else { t1 };
                nf(load_values_iter(t2, next, ex + rest, r, cap, share, next.len() as int))
            },
            Temporary::Spill(k) => {
                let r = Register::X(10);
                let tb = if !rfa { St { mem: ta.mem.insert(slot_addr(ta, 0), ta.regs[10]), ..ta } } else { ta };
                let tc = wr(tb, r, tb.mem[slot_addr(tb, k.0 as int)]);
                let t1 = if !share { nf(release_effect(tc, rd(tc, r))) } else { tc };
                let t2 = if !last { nf(load_field_effect(t1, tfp(2 * (ex + n)), r, 48int)) } else { t1 };
                let t3 = nf(load_values_iter(t2, next, ex + rest, r, cap, share, next.len() as int));
                if last { wr(t3, r, t3.mem[slot_addr(t3, 0)]) } else { t3 }
            },
        }
    }
}

/// effect of `Memory::load` once the pointer to the first block is in register `mb` and its reference count
/// in X3: the count decides between taking the object apart (count 0: blocks released, children moved) and
/// copying it (count > 0: count decremented, children shared)
pub open spec fn load_register_effect(t: St, mb: Register, bs: Seq<ContextBinding>, ex: int) -> St {
    let c = t.regs[3];
    if c == 0 {
        load_fields_effect(t, bs, ex, true, false, false)
    } else {
        let c1 = wsub(c, i2u(1i64));
        load_fields_effect(nf(St { regs: t.regs.insert(3, c1), mem: t.mem.insert(rd(t, mb) as int, c1), ..t }), bs, ex, true, true, false)
    }
}

pub open spec fn load_effect(t: St, bs: Seq<ContextBinding>, ex: int) -> St {
    if bs.len() == 0 { t } else {
        match tfp(2 * ex) {
            Temporary::Register(r) => load_register_effect(wr(t, Register::X(3), t.mem[rd(t, r) as int]), r, bs, ex),
            Temporary::Spill(k) => {
                let t1 = wr(t, Register::X(2), t.mem[slot_addr(t, k.0 as int)]);
                let t2 = wr(t1, Register::X(3), t1.mem[rd(t1, Register::X(2)) as int]);
                load_register_effect(t2, Register::X(2), bs, ex)
            },
        }
    }
}

// ---- none of the memory effects moves the stack pointer (needed to carry the alignment hypothesis) -------
pub proof fn lemma_erase_fields_sp(t: St, r: Register, k: int)
    ensures erase_fields_spec(t, r, k).sp == t.sp,
    decreases k,
{
    if k > 0 { lemma_erase_fields_sp(t, r, k - 1); }
}

pub proof fn lemma_acquire_sp(t0: St, new_block: Temporary)
    requires var_tmp(new_block),
    ensures acquire_effect(t0, new_block).sp == t0.sp,
{
    let h0 = t0.regs[0];
    let t1 = if new_block is Spill { set(St { regs: t0.regs.insert(2, h0), ..t0 }, new_block, h0) } else { set(t0, new_block, h0) };
    let next = t1.mem[t1.regs[0] as int];
    let t2 = St { regs: t1.regs.insert(0, next), ..t1 };
    let f0 = t2.regs[1];
    let link = t2.mem[f0 as int];
    let t3 = St { regs: t2.regs.insert(0, f0).insert(1, link), ..t2 };
    lemma_erase_fields_sp(St { mem: t3.mem.insert(f0 as int, 0), ..t3 }, Register::X(0), 3);
}

pub proof fn lemma_store_values_iter_sp(t: St, bs: Seq<ContextBinding>, rem: int, mb: Register, ff: int, i: int)
    ensures store_values_iter(t, bs, rem, mb, ff, i).sp == t.sp,
    decreases i,
{
    if i > 0 { lemma_store_values_iter_sp(t, bs, rem, mb, ff, i - 1); }
}

pub proof fn lemma_store_values_sp(t: St, bs: Seq<ContextBinding>, rem: int, mb: Register, ff: int)
    ensures store_values_effect(t, bs, rem, mb, ff).sp == t.sp,
{
    lemma_store_values_iter_sp(t, bs, rem, mb, ff, bs.len() as int);
    lemma_store_zeros_nf(store_values_iter(t, bs, rem, mb, ff, bs.len() as int), mb, ff - bs.len());
}

pub proof fn lemma_load_values_iter_sp(t: St, bs: Seq<ContextBinding>, ex: int, mb: Register, ff: int, share: bool, i: int)
    requires 0 <= ex,
    ensures load_values_iter(t, bs, ex, mb, ff, share, i).sp == t.sp,
    decreases i,
{
    if i > 0 { lemma_load_values_iter_sp(t, bs, ex, mb, ff, share, i - 1); }
}

pub proof fn lemma_store_fields_sp(t: St, bs: Seq<ContextBinding>, rem: int, last: bool)
    requires 0 <= rem, 2 * (rem + bs.len()) + 1 < 281,
    ensures store_fields_effect(t, bs, rem, last).sp == t.sp,
    decreases bs.len(),
{
    let n = bs.len() as int;
    if n > 0 {
        let t1 = if !last { nf(store_field_effect(t, tfp(2 * (rem + n)), Register::X(0), 48int)) } else { t };
        let cap = if last { 3int } else { 2int };
        let rest = if n <= cap { 0int } else { n - cap };
        lemma_store_values_sp(t1, bs.subrange(rest, n), rem + rest, Register::X(0), cap);
        let t2 = nf(store_values_effect(t1, bs.subrange(rest, n), rem + rest, Register::X(0), cap));
        lemma_acquire_sp(t2, tfp(2 * (rem + rest)));
        let t3 = nf(acquire_effect(t2, tfp(2 * (rem + rest))));
        lemma_store_fields_sp(t3, bs.subrange(0, rest), rem, false);
    }
}

pub proof fn lemma_load_fields_sp(t: St, bs: Seq<ContextBinding>, ex: int, last: bool, share: bool, rf: bool)
    requires 0 <= ex,
    ensures load_fields_effect(t, bs, ex, last, share, rf).sp == t.sp,
    decreases bs.len(),
{
    let n = bs.len() as int;
    if n > 0 {
        let cap = if last { 3int } else { 2int };
        let rest = if n <= cap { 0int } else { n - cap };
        lemma_load_fields_sp(t, bs.subrange(0, rest), ex, false, share, rf);
        let ta = load_fields_effect(t, bs.subrange(0, rest), ex, false, share, rf);
        let rfa = load_fields_rf(rest, ex, false, rf);
        let next = bs.subrange(rest, n);
        match tfp(2 * (ex + rest)) {
            Temporary::Register(r) => {
                let t1 = if !share { nf(release_effect(ta, rd(ta, r))) } else { ta };
                let t2 = if !last { nf(load_field_effect(t1, tfp(2 * (ex + n)), r, 48int)) } else { t1 };
                lemma_load_values_iter_sp(t2, next, ex + rest, r, cap, share, next.len() as int);
            },
            Temporary::Spill(k) => {
                let r = Register::X(10);
                let tb = if !rfa { St { mem: ta.mem.insert(slot_addr(ta, 0), ta.regs[10]), ..ta } } else { ta };
                let tc = wr(tb, r, tb.mem[slot_addr(tb, k.0 as int)]);
                let t1 = if !share { nf(release_effect(tc, rd(tc, r))) } else { tc };
                let t2 = if !last { nf(load_field_effect(t1, tfp(2 * (ex + n)), r, 48int)) } else { t1 };
                lemma_load_values_iter_sp(t2, next, ex + rest, r, cap, share, next.len() as int);
            },
        }
    }
}

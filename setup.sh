#!/bin/sh
# Offline setup: nothing to download; pre-build the native harness crates when present.
set -e
cd "$(dirname "$0")"
mkdir -p build evidence replays
if [ -d native ]; then
  (cd native && CARGO_NET_OFFLINE=true cargo build --release --offline -q) || exit 1
fi
exit 0

#!/bin/sh
# Offline setup: nothing is downloaded. Pre-builds the native harness crate (path-depends on /repo/lang/*)
# and the Kani harness crate so that the first check does not pay for it.
set -e
cd "$(dirname "$0")"
mkdir -p build evidence replays
export CARGO_NET_OFFLINE=true
(cd native && cargo build --release --offline -q)
(cd kani && cargo kani --harness not16_roundtrip >/dev/null 2>&1 || true)
exit 0

//! Reference interpreter for AxCut (the abstract machine of the paper, environment-based), used as the
//! oracle of the bounded checks for C05 (linearization preserves behaviour) and C06-C08 (generated
//! code behaves like the AxCut machine).  Environments are ordered lists; variables are looked up
//! by identifier; where a linearized program passes arguments positionally (`Call` / `Invoke` whose
//! argument list was taken by the linearizer) the whole environment is passed in order.
use axcut::syntax::statements::ifc::IfSort;
use axcut::syntax::statements::Clause;
use axcut::syntax::{BinOp, ContextBinding, Prog, Statement, TypingContext, ID};
use std::rc::Rc;

#[derive(Clone, Debug)]
pub enum Val {
    Int(i64),
    /// constructor index + fields
    Data(usize, Rc<Vec<Val>>),
    /// methods + captured environment
    Closure(Rc<Vec<Clause>>, Rc<Vec<(ID, Val)>>),
}

#[derive(Debug, Clone, PartialEq)]
pub struct Outcome {
    pub prints: Vec<(bool, i64)>,
    /// Some(result) on exit; None if the run was cut off (step limit) or hit an undefined operation
    pub result: Option<i64>,
    pub stuck: Option<String>,
}

fn lookup(env: &[(ID, Val)], id: ID) -> Result<Val, String> {
    env.iter().rev().find(|(i, _)| *i == id).map(|(_, v)| v.clone()).ok_or_else(|| format!("variable with id {id} is not in the environment {:?}", env.iter().map(|(i, _)| *i).collect::<Vec<_>>()))
}

fn bind_positional(params: &TypingContext, vals: Vec<Val>) -> Result<Vec<(ID, Val)>, String> {
    if params.bindings.len() != vals.len() {
        return Err(format!("arity mismatch: {} parameters, {} values", params.bindings.len(), vals.len()));
    }
    Ok(params.bindings.iter().map(|b| b.var.id).zip(vals).collect())
}

fn args_or_env(args: &TypingContext, env: &[(ID, Val)], expected: usize, drop_last: bool) -> Result<Vec<Val>, String> {
    if args.bindings.len() == expected {
        // arguments given by name (non-linear program, or nothing to pass)
        args.bindings.iter().map(|b: &ContextBinding| lookup(env, b.var.id)).collect()
    } else if args.bindings.is_empty() {
        // positional (linear) passing: the environment itself, minus the closure in last position for invoke
        let n = if drop_last { env.len().saturating_sub(1) } else { env.len() };
        if n != expected {
            return Err(format!("positional argument passing: the environment has {n} entries, the callee expects {expected}"));
        }
        Ok(env[..n].iter().map(|(_, v)| v.clone()).collect())
    } else {
        Err(format!("{} arguments for {expected} parameters", args.bindings.len()))
    }
}

/// `linear = false`: named, non-consuming environments (source AxCut).
/// `linear = true`: the ordered, consuming discipline the backends implement - `let` consumes the last
/// |args| entries, `switch` the last entry, `create` the last |closure environment| entries, `call` and
/// `invoke` pass the environment positionally.
pub fn run(prog: &Prog, main_args: &[i64], max_steps: usize, linear: bool) -> Outcome {
    let mut out = Outcome { prints: vec![], result: None, stuck: None };
    let def0 = &prog.defs[0];
    let mut env: Vec<(ID, Val)> = def0.context.bindings.iter().zip(main_args.iter()).map(|(b, v)| (b.var.id, Val::Int(*v))).collect();
    let mut stmt: Statement = def0.body.clone();
    let mut steps = 0;
    loop {
        steps += 1;
        if steps > max_steps {
            out.stuck = Some("step limit".into());
            return out;
        }
        let r: Result<Option<(Statement, Vec<(ID, Val)>)>, String> = (|| {
            match &stmt {
                Statement::Substitute(s) => {
                    let mut ne = vec![];
                    for (nb, old) in &s.rearrange {
                        ne.push((nb.var.id, lookup(&env, old.id)?));
                    }
                    Ok(Some(((*s.next).clone(), ne)))
                }
                Statement::Call(c) => {
                    let def = prog.defs.iter().find(|d| d.name == c.label).ok_or("unknown definition")?;
                    let vals = if linear { env.iter().map(|(_, v)| v.clone()).collect() } else { args_or_env(&c.args, &env, def.context.bindings.len(), false)? };
                    Ok(Some((def.body.clone(), bind_positional(&def.context, vals)?)))
                }
                Statement::Let(l) => {
                    let decl = l.ty.lookup_type_declaration(&prog.types);
                    let pos = decl.xtor_position(&l.tag);
                    let mut fields = vec![];
                    let mut ne = env.clone();
                    if linear {
                        let n = l.args.bindings.len();
                        if n > ne.len() {
                            return Err("let: environment shorter than the argument list".into());
                        }
                        fields = ne.split_off(ne.len() - n).into_iter().map(|(_, v)| v).collect();
                    } else {
                        for b in &l.args.bindings {
                            fields.push(lookup(&env, b.var.id)?);
                        }
                    }
                    ne.push((l.var.id, Val::Data(pos, Rc::new(fields))));
                    Ok(Some(((*l.next).clone(), ne)))
                }
                Statement::Switch(s) => {
                    let mut ne: Vec<(ID, Val)> = env.clone();
                    let v = if linear { ne.pop().ok_or("switch in an empty environment")?.1 } else { lookup(&env, s.var.id)? };
                    let Val::Data(pos, fields) = v else { return Err("switch on a non-data value".into()) };
                    let clause = s.clauses.get(pos).ok_or("switch: no clause for the constructor")?;
                    ne.extend(bind_positional(&clause.context, fields.to_vec())?);
                    Ok(Some(((*clause.body).clone(), ne)))
                }
                Statement::Create(c) => {
                    let mut ne = env.clone();
                    let captured: Vec<(ID, Val)> = match &c.context {
                        Some(ctx) if linear => {
                            let n = ctx.bindings.len();
                            if n > ne.len() {
                                return Err("create: environment shorter than the closure environment".into());
                            }
                            let tail = ne.split_off(ne.len() - n);
                            ctx.bindings.iter().map(|b| b.var.id).zip(tail.into_iter().map(|(_, v)| v)).collect()
                        }
                        Some(ctx) => {
                            let mut v = vec![];
                            for b in &ctx.bindings {
                                v.push((b.var.id, lookup(&env, b.var.id)?));
                            }
                            v
                        }
                        None => env.clone(),
                    };
                    ne.push((c.var.id, Val::Closure(Rc::new(c.clauses.clone()), Rc::new(captured))));
                    Ok(Some(((*c.next).clone(), ne)))
                }
                Statement::Invoke(i) => {
                    let v = if linear { env.last().ok_or("invoke in an empty environment")?.1.clone() } else { lookup(&env, i.var.id)? };
                    let Val::Closure(clauses, captured) = v else { return Err("invoke on a non-closure value".into()) };
                    let decl = i.ty.lookup_type_declaration(&prog.types);
                    let pos = decl.xtor_position(&i.tag);
                    let clause = clauses.get(pos).ok_or("invoke: no clause for the destructor")?;
                    let vals = if linear { env[..env.len() - 1].iter().map(|(_, v)| v.clone()).collect() } else { args_or_env(&i.args, &env, clause.context.bindings.len(), true)? };
                    let mut ne = bind_positional(&clause.context, vals)?;
                    ne.extend(captured.iter().cloned());
                    Ok(Some(((*clause.body).clone(), ne)))
                }
                Statement::Literal(l) => {
                    let mut ne = env.clone();
                    ne.push((l.var.id, Val::Int(l.lit)));
                    Ok(Some(((*l.next).clone(), ne)))
                }
                Statement::Op(o) => {
                    let (Val::Int(a), Val::Int(b)) = (lookup(&env, o.fst.id)?, lookup(&env, o.snd.id)?) else { return Err("arithmetic on non-integers".into()) };
                    let r = match o.op {
                        BinOp::Sum => a.wrapping_add(b),
                        BinOp::Sub => a.wrapping_sub(b),
                        BinOp::Prod => a.wrapping_mul(b),
                        BinOp::Div => {
                            if b == 0 || (a == i64::MIN && b == -1) {
                                return Err("UNDEFINED: division by zero or overflow".into());
                            }
                            a / b
                        }
                        BinOp::Rem => {
                            if b == 0 || (a == i64::MIN && b == -1) {
                                return Err("UNDEFINED: division by zero or overflow".into());
                            }
                            a % b
                        }
                    };
                    let mut ne = env.clone();
                    ne.push((o.var.id, Val::Int(r)));
                    Ok(Some(((*o.next).clone(), ne)))
                }
                Statement::PrintI64(p) => {
                    let Val::Int(a) = lookup(&env, p.var.id)? else { return Err("print of a non-integer".into()) };
                    out.prints.push((p.newline, a));
                    Ok(Some(((*p.next).clone(), env.clone())))
                }
                Statement::IfC(i) => {
                    let Val::Int(a) = lookup(&env, i.fst.id)? else { return Err("if on a non-integer".into()) };
                    let b = match &i.snd {
                        None => 0,
                        Some(s) => match lookup(&env, s.id)? {
                            Val::Int(b) => b,
                            _ => return Err("if on a non-integer".into()),
                        },
                    };
                    let c = match i.sort {
                        IfSort::Equal => a == b,
                        IfSort::NotEqual => a != b,
                        IfSort::Less => a < b,
                        IfSort::LessOrEqual => a <= b,
                        IfSort::Greater => a > b,
                        IfSort::GreaterOrEqual => a >= b,
                    };
                    Ok(Some((if c { (*i.thenc).clone() } else { (*i.elsec).clone() }, env.clone())))
                }
                Statement::Exit(e) => {
                    let Val::Int(a) = lookup(&env, e.var.id)? else { return Err("exit with a non-integer".into()) };
                    out.result = Some(a);
                    Ok(None)
                }
            }
        })();
        match r {
            Err(e) => {
                out.stuck = Some(e);
                return out;
            }
            Ok(None) => return out,
            Ok(Some((s, e))) => {
                stmt = s;
                env = e;
            }
        }
    }
}

//! AArch64 interpreter for `axcut2aarch64::code::Code`.
use crate::machine::*;
use crate::x86::label_addr;
use axcut2aarch64::code::Code;
use axcut2aarch64::config::{Register, Spill, Temporary};
use std::collections::HashMap;

pub const SPILL_SPACE: u64 = 2048;

#[derive(Clone)]
pub struct A64 {
    pub regs: [u64; 30],
    pub sp: u64,
    pub mem: HashMap<u64, u64>,
    pub fl: Option<(u64, u64)>,
    pub calls: Vec<(String, u64)>,
    pub rng: Rng,
    pub junk: u64,
    /// addresses in [zero.0, zero.1) read as 0 when never written (the zero-filled heap)
    pub zero: (u64, u64),
}

impl A64 {
    fn rd(&self, r: Register) -> u64 {
        match r {
            Register::X(n) => self.regs[n],
            Register::SP => self.sp,
            Register::XZR => 0,
        }
    }
    fn wr(&mut self, r: Register, v: u64) {
        match r {
            Register::X(n) => self.regs[n] = v,
            Register::SP => self.sp = v,
            Register::XZR => {}
        }
    }
    fn ld(&self, a: u64) -> u64 {
        match self.mem.get(&a) {
            Some(v) => *v,
            None => if a >= self.zero.0 && a < self.zero.1 { 0 } else { a.wrapping_mul(0x9E3779B97F4A7C15) ^ self.junk },
        }
    }
    fn base(&self, b: Register) -> Result<u64, String> {
        if let Register::SP = b {
            if self.sp % 16 != 0 {
                return Err(format!("SP-relative access with SP = {:#x} not 16-byte aligned", self.sp));
            }
        }
        Ok(self.rd(b))
    }
}

impl Machine for A64 {
    type Code = Code;
    type Temp = Temporary;
    const NAME: &'static str = "aarch64";
    const NREGS: usize = 30;

    fn new(seed: u64) -> Self {
        let mut rng = Rng(seed | 1);
        let mut regs = [0u64; 30];
        for r in regs.iter_mut() {
            *r = rng.next();
        }
        let junk = rng.next();
        A64 { regs, sp: 0x7fff_0000_1000, mem: HashMap::new(), fl: None, calls: vec![], rng, junk, zero: (0, 0) }
    }

    fn exec(&mut self, code: &[Code]) -> Exit {
        self.exec_limit(code, 100_000)
    }

    fn exec_limit(&mut self, code: &[Code], limit: usize) -> Exit {
        let mut labels = HashMap::new();
        let mut addr_of: Vec<u64> = Vec::with_capacity(code.len());
        let mut index_of: HashMap<u64, usize> = HashMap::new();
        let mut a = crate::x86::CODE_BASE;
        for (i, c) in code.iter().enumerate() {
            addr_of.push(a);
            match c {
                Code::LAB(l) => {
                    labels.insert(l.clone(), i);
                }
                Code::TEXT | Code::GLOBAL(_) | Code::COMMENT(_) => {}
                _ => {
                    index_of.insert(a, i);
                    a += 4;
                }
            }
        }
        let label_address = |l: &str| -> u64 {
            match labels.get(l) {
                Some(&i) => addr_of[i],
                None => label_addr(l),
            }
        };
        let mut pc = 0usize;
        let mut steps = 0;
        while pc < code.len() {
            steps += 1;
            if steps > limit {
                return Exit::StepLimit;
            }
            let c = &code[pc];
            pc += 1;
            use Code::*;
            macro_rules! jump {
                ($l:expr) => {
                    match labels.get($l) {
                        Some(&i) => pc = i,
                        None => return Exit::Label($l.clone()),
                    }
                };
            }
            macro_rules! bcond {
                ($l:expr, $f:expr) => {
                    match self.fl {
                        None => return Exit::Fault("conditional branch with undefined flags".into()),
                        Some((a, b)) => {
                            let f: fn(i64, i64) -> bool = $f;
                            if f(a as i64, b as i64) {
                                jump!($l)
                            }
                        }
                    }
                };
            }
            match c {
                ADD(d, a, b) => {
                    let v = self.rd(*a).wrapping_add(self.rd(*b));
                    self.wr(*d, v)
                }
                ADDI(d, a, i) => {
                    if i.val < 0 || i.val > 4095 {
                        return Exit::Fault(format!("ADD immediate {} out of range 0..4095", i.val));
                    }
                    let v = self.rd(*a).wrapping_add(i.val as u64);
                    self.wr(*d, v)
                }
                SUB(d, a, b) => {
                    let v = self.rd(*a).wrapping_sub(self.rd(*b));
                    self.wr(*d, v)
                }
                SUBI(d, a, i) => {
                    if i.val < 0 || i.val > 4095 {
                        return Exit::Fault(format!("SUB immediate {} out of range 0..4095", i.val));
                    }
                    let v = self.rd(*a).wrapping_sub(i.val as u64);
                    self.wr(*d, v)
                }
                MUL(d, a, b) => {
                    let v = self.rd(*a).wrapping_mul(self.rd(*b));
                    self.wr(*d, v)
                }
                SDIV(d, a, b) => {
                    let (x, y) = (self.rd(*a) as i64, self.rd(*b) as i64);
                    let v = if y == 0 { 0 } else { x.wrapping_div(y) };
                    self.wr(*d, v as u64)
                }
                MSUB(d, n, m, a) => {
                    let v = self.rd(*a).wrapping_sub(self.rd(*n).wrapping_mul(self.rd(*m)));
                    self.wr(*d, v)
                }
                B(l) => jump!(l),
                BR(r) => match index_of.get(&self.rd(*r)) {
                    Some(&i) => pc = i,
                    None => return Exit::Reg(self.rd(*r)),
                },
                BL(f) => {
                    if self.sp % 16 != 0 {
                        return Exit::Fault(format!("BL {f} with SP = {:#x} not 16-byte aligned", self.sp));
                    }
                    self.calls.push((f.clone(), self.regs[0]));
                    // AAPCS64: X0-X17 caller-saved, X30 (= X(29) here) overwritten by BL; stack below SP dead
                    for r in 0..18 {
                        self.regs[r] = self.rng.next();
                    }
                    self.regs[29] = self.rng.next();
                    self.fl = None;
                    let sp = self.sp;
                    let mut rng = self.rng.clone();
                    for (a, v) in self.mem.iter_mut() {
                        if *a < sp && *a >= sp.wrapping_sub(1 << 24) {
                            *v = rng.next();
                        }
                    }
                    self.rng = rng;
                    self.junk = self.rng.next();
                }
                ADR(d, l) => self.wr(*d, label_address(l)),
                MOVR(d, a) => {
                    let v = self.rd(*a);
                    self.wr(*d, v)
                }
                MOVZ(d, i, sh) | MOVN(d, i, sh) | MOVK(d, i, sh) => {
                    if i.val < 0 || i.val > 65535 {
                        return Exit::Fault(format!("MOV wide immediate {} out of range", i.val));
                    }
                    if ![0, 16, 32, 48].contains(&sh.val) {
                        return Exit::Fault(format!("MOV wide shift {} invalid", sh.val));
                    }
                    let piece = (i.val as u64) << sh.val;
                    let v = match c {
                        MOVZ(..) => piece,
                        MOVN(..) => !piece,
                        _ => (self.rd(*d) & !(0xffffu64 << sh.val)) | piece,
                    };
                    self.wr(*d, v)
                }
                LDR(d, b, o) => {
                    if o.val < 0 || o.val > 32760 || o.val % 8 != 0 {
                        return Exit::Fault(format!("LDR offset {} not encodable", o.val));
                    }
                    match self.base(*b) {
                        Err(e) => return Exit::Fault(e),
                        Ok(ba) => {
                            let v = self.ld(ba.wrapping_add(o.val as u64));
                            self.wr(*d, v)
                        }
                    }
                }
                STR(r, b, o) => {
                    if o.val < 0 || o.val > 32760 || o.val % 8 != 0 {
                        return Exit::Fault(format!("STR offset {} not encodable", o.val));
                    }
                    match self.base(*b) {
                        Err(e) => return Exit::Fault(e),
                        Ok(ba) => {
                            let v = self.rd(*r);
                            self.mem.insert(ba.wrapping_add(o.val as u64), v);
                        }
                    }
                }
                LDP_POST_INDEX(a, b, base, i) => match self.base(*base) {
                    Err(e) => return Exit::Fault(e),
                    Ok(ba) => {
                        let (v1, v2) = (self.ld(ba), self.ld(ba.wrapping_add(8)));
                        self.wr(*a, v1);
                        self.wr(*b, v2);
                        self.wr(*base, ba.wrapping_add(i.val as u64));
                    }
                },
                STP_PRE_INDEX(a, b, base, i) => {
                    let nb = self.rd(*base).wrapping_add(i.val as u64);
                    if let Register::SP = base {
                        if nb % 16 != 0 {
                            return Exit::Fault("STP pre-index leaves SP misaligned".into());
                        }
                    }
                    let (v1, v2) = (self.rd(*a), self.rd(*b));
                    self.wr(*base, nb);
                    self.mem.insert(nb, v1);
                    self.mem.insert(nb.wrapping_add(8), v2);
                }
                CMPR(a, b) => self.fl = Some((self.rd(*a), self.rd(*b))),
                CMPI(a, i) => {
                    if i.val < 0 || i.val > 4095 {
                        return Exit::Fault(format!("CMP immediate {} out of range", i.val));
                    }
                    self.fl = Some((self.rd(*a), i.val as u64))
                }
                BEQ(l) => bcond!(l, |a, b| a == b),
                BNE(l) => bcond!(l, |a, b| a != b),
                BLT(l) => bcond!(l, |a, b| a < b),
                BLE(l) => bcond!(l, |a, b| a <= b),
                BGT(l) => bcond!(l, |a, b| a > b),
                BGE(l) => bcond!(l, |a, b| a >= b),
                RET => return Exit::Ret,
                LAB(_) | TEXT | GLOBAL(_) | COMMENT(_) => {}
            }
        }
        Exit::FellOff
    }

    fn get(&self, t: Temporary) -> u64 {
        match t {
            Temporary::Register(r) => self.rd(r),
            Temporary::Spill(k) => self.ld(slot_addr(self.sp, k.0)),
        }
    }
    fn set(&mut self, t: Temporary, v: u64) {
        match t {
            Temporary::Register(r) => self.wr(r, v),
            Temporary::Spill(k) => {
                self.mem.insert(slot_addr(self.sp, k.0), v);
            }
        }
    }
    fn reg(&self, n: usize) -> u64 {
        self.regs[n]
    }
    fn set_reg(&mut self, n: usize, v: u64) {
        self.regs[n] = v
    }
    fn sp(&self) -> u64 {
        self.sp
    }
    fn set_sp(&mut self, v: u64) {
        self.sp = v
    }
    fn mem(&self) -> &HashMap<u64, u64> {
        &self.mem
    }
    fn mem_mut(&mut self) -> &mut HashMap<u64, u64> {
        &mut self.mem
    }
    fn calls(&self) -> &Vec<(String, u64)> {
        &self.calls
    }
    fn temp_reg(n: usize) -> Temporary {
        Temporary::Register(Register::X(n))
    }
    fn temp_spill(k: usize) -> Option<Temporary> {
        Some(Temporary::Spill(Spill(k)))
    }
    fn temp_as_reg(t: Temporary) -> Option<usize> {
        match t {
            Temporary::Register(Register::X(n)) => Some(n),
            _ => None,
        }
    }
    fn temp_as_spill(t: Temporary) -> Option<usize> {
        match t {
            Temporary::Spill(k) => Some(k.0),
            _ => None,
        }
    }
    fn set_zero_region(&mut self, lo: u64, hi: u64) {
        self.zero = (lo, hi);
    }
    fn scratch_regs() -> Vec<usize> {
        vec![2, 3]
    }
}

pub fn slot_addr(sp: u64, k: usize) -> u64 {
    sp.wrapping_add(SPILL_SPACE - 8 * (k as u64 + 1))
}

//! Executable versions of the emitter contracts of /verif/contracts/*_code.inc, evaluated on the real
//! `Instructions` methods for a grid of operand placements x boundary values.  Used (a) as the
//! counterexample finder for an obligation the deductive verifier rejected or could not decide and
//! (b) as a bounded cross-check of the hand-written ISA specifications against the executable model.
use crate::machine::*;
use crate::report::*;
use axcut2backend::code::Instructions;
use axcut2backend::config::Config;

pub const VALUES: [u64; 12] = [
    0,
    1,
    2,
    u64::MAX,
    u64::MAX - 1,
    0x7fff_ffff_ffff_ffff,
    0x8000_0000_0000_0000,
    0x8000_0000,
    0xffff_ffff,
    0x1_0000_0000,
    3,
    0xffff_ffff_ffff_fff9,
];

pub const IMMS: [i64; 24] = [
    0,
    1,
    -1,
    2,
    -2,
    0xffff,
    0x1_0000,
    -0x1_0000,
    0x7fff_ffff,
    0x8000_0000,
    -0x8000_0000,
    -0x8000_0001,
    0xffff_ffff,
    0x1_0000_0000,
    0x1234_5678_9abc_def0,
    -0x1234_5678_9abc_def0,
    i64::MAX,
    i64::MIN,
    0x0000_ffff_0000_ffff,
    -0x0000_ffff_0000_0001,
    0xffff_0000_0000,
    0x7fff_0000_0000_0000,
    -0x7fff_ffff_ffff_0001,
    0x1_0000_0000_0000,
];

#[derive(Clone, Copy, Debug, PartialEq, Eq)]
pub enum Op {
    Add,
    Sub,
    Mul,
    Div,
    Rem,
}

impl Op {
    pub fn eval(self, a: u64, b: u64) -> Option<u64> {
        match self {
            Op::Add => Some(a.wrapping_add(b)),
            Op::Sub => Some(a.wrapping_sub(b)),
            Op::Mul => Some(a.wrapping_mul(b)),
            Op::Div => wdiv(a, b),
            Op::Rem => wrem(a, b),
        }
    }
    pub fn name(self) -> &'static str {
        match self {
            Op::Add => "add",
            Op::Sub => "sub",
            Op::Mul => "mul",
            Op::Div => "div",
            Op::Rem => "rem",
        }
    }
}

pub trait Pre<M: Machine> {
    /// temporaries to try
    fn temps() -> Vec<M::Temp>;
    /// mirror of the `requires` of the three-address emitters in the contract files
    fn op_pre(op: Op, t: M::Temp, s1: M::Temp, s2: M::Temp) -> bool;
    fn cmp_pre(a: M::Temp, b: M::Temp) -> bool;
    fn imm_ok_add_and_jump(i: i64) -> bool;
    /// may `rem` clobber the reserved spill slot 0?
    fn slot0_scratch() -> bool;
}

fn frame_check<M: Machine>(before: &M, after: &M, written: &[M::Temp], allow_slot0: bool) -> Result<(), String> {
    let mut ok_regs: Vec<usize> = M::scratch_regs();
    let mut ok_mem: Vec<u64> = vec![];
    for t in written {
        if let Some(r) = M::temp_as_reg(*t) {
            ok_regs.push(r);
        }
        if let Some(k) = M::temp_as_spill(*t) {
            ok_mem.push(before.sp().wrapping_add(2048 - 8 * (k as u64 + 1)));
        }
    }
    if allow_slot0 {
        ok_mem.push(before.sp().wrapping_add(2040));
    }
    for r in 0..M::NREGS {
        if !ok_regs.contains(&r) && before.reg(r) != after.reg(r) {
            return Err(format!("register {r} changed from {:#x} to {:#x} (not the target, not scratch)", before.reg(r), after.reg(r)));
        }
    }
    if before.sp() != after.sp() {
        return Err("stack pointer changed".into());
    }
    for (a, v) in after.mem().iter() {
        if !ok_mem.contains(a) && before.mem().get(a) != Some(v) {
            return Err(format!("memory word {a:#x} changed to {v:#x} (not the target, not scratch)"));
        }
    }
    if before.calls().len() != after.calls().len() {
        return Err("unexpected external call".into());
    }
    Ok(())
}

fn init<M: Machine>(seed: u64, temps: &[M::Temp]) -> M {
    let mut st = M::new(seed);
    let mut rng = Rng(seed.wrapping_mul(31).wrapping_add(7) | 1);
    for t in temps {
        st.set(*t, rng.next());
    }
    st
}

pub struct Found {
    pub obligation: String,
    pub failure: Failure,
}

/// run every emitter contract; `only` restricts to one emitter name (counterexample search)
pub fn check<B, M, I, P>(seed: u64, only: Option<&str>, cases: &mut u64) -> Vec<Found>
where
    M: Machine,
    P: Pre<M>,
    I: Copy,
    B: Config<M::Temp, I> + Instructions<M::Code, M::Temp, I>,
{
    let mut found: Vec<Found> = vec![];
    let temps = P::temps();
    let want = |n: &str| only.map(|o| o == n).unwrap_or(true);
    let mut report = |name: &str, what: String, input: String, code: &[M::Code], found: &mut Vec<Found>| {
        if found.iter().filter(|f| f.obligation.contains(&format!("::{name}::"))).count() < 2 {
            found.push(Found {
                obligation: format!("native::{}::{}::contract", M::NAME, name),
                failure: Failure { what, input, instructions: M::render(code), detail: String::new() },
            });
        }
    };
    // ---- three-address arithmetic --------------------------------------------------------------
    for op in [Op::Add, Op::Sub, Op::Mul, Op::Div, Op::Rem] {
        if !want(op.name()) {
            continue;
        }
        for &t in &temps {
            for &s1 in &temps {
                for &s2 in &temps {
                    if !P::op_pre(op, t, s1, s2) {
                        continue;
                    }
                    let mut code = vec![];
                    match op {
                        Op::Add => B::add(t, s1, s2, &mut code),
                        Op::Sub => B::sub(t, s1, s2, &mut code),
                        Op::Mul => B::mul(t, s1, s2, &mut code),
                        Op::Div => B::div(t, s1, s2, &mut code),
                        Op::Rem => B::rem(t, s1, s2, &mut code),
                    }
                    for &a in &VALUES {
                        for &b in &VALUES {
                            let bb = if s1 == s2 { a } else { b };
                            let Some(exp) = op.eval(a, bb) else { continue };
                            *cases += 1;
                            let mut st = init::<M>(seed, &temps);
                            st.set(s1, a);
                            st.set(s2, bb);
                            let before = st.clone();
                            let exit = st.exec(&code);
                            let input = format!("{}(target={t:?}, source_1={s1:?} = {a:#x}, source_2={s2:?} = {bb:#x})", op.name());
                            if exit != Exit::FellOff {
                                report(op.name(), format!("execution of the emitted code ended with {exit:?}"), input, &code, &mut found);
                                continue;
                            }
                            if st.get(t) != exp {
                                report(op.name(), format!("target holds {:#x}, expected {exp:#x}", st.get(t)), input, &code, &mut found);
                                continue;
                            }
                            if let Err(e) = frame_check(&before, &st, &[t], op == Op::Rem && P::slot0_scratch()) {
                                report(op.name(), e, input, &code, &mut found);
                            }
                        }
                    }
                }
            }
        }
    }
    // ---- mov -------------------------------------------------------------------------------------
    if want("mov") {
        for &t in &temps {
            for &s in &temps {
                let mut code = vec![];
                B::mov(t, s, &mut code);
                *cases += 1;
                let mut st = init::<M>(seed, &temps);
                let v = st.get(s);
                let before = st.clone();
                let exit = st.exec(&code);
                let input = format!("mov(target={t:?}, source={s:?} = {v:#x})");
                if exit != Exit::FellOff {
                    report("mov", format!("execution ended with {exit:?}"), input, &code, &mut found);
                } else if st.get(t) != v {
                    report("mov", format!("target holds {:#x}, expected {v:#x}", st.get(t)), input, &code, &mut found);
                } else if let Err(e) = frame_check(&before, &st, &[t], false) {
                    report("mov", e, input, &code, &mut found);
                }
            }
        }
    }
    // ---- load_immediate --------------------------------------------------------------------------
    if want("load_immediate") {
        let mut rng = Rng(seed.wrapping_add(99) | 1);
        let mut imms: Vec<i64> = IMMS.to_vec();
        for _ in 0..200 {
            let mut v = 0u64;
            // random mixtures of 0x0000 / 0xffff / random halfwords
            for h in 0..4 {
                let hw = match rng.below(3) {
                    0 => 0,
                    1 => 0xffff,
                    _ => rng.next() & 0xffff,
                };
                v |= hw << (16 * h);
            }
            imms.push(v as i64);
        }
        for &t in &temps {
            for &i in &imms {
                let mut code = vec![];
                B::load_immediate(t, B::i64_to_immediate(i), &mut code);
                *cases += 1;
                let mut st = init::<M>(seed, &temps);
                let before = st.clone();
                let exit = st.exec(&code);
                let input = format!("load_immediate(target={t:?}, immediate={i} = {:#x})", i as u64);
                if exit != Exit::FellOff {
                    report("load_immediate", format!("execution ended with {exit:?}"), input, &code, &mut found);
                } else if st.get(t) != i as u64 {
                    report("load_immediate", format!("target holds {:#x}, expected {:#x}", st.get(t), i as u64), input, &code, &mut found);
                } else if let Err(e) = frame_check(&before, &st, &[t], false) {
                    report("load_immediate", e, input, &code, &mut found);
                }
            }
        }
    }
    // ---- compare and branch ----------------------------------------------------------------------
    type Cmp = fn(i64, i64) -> bool;
    let two: [(&str, Cmp); 6] = [
        ("jump_label_if_equal", |a, b| a == b),
        ("jump_label_if_not_equal", |a, b| a != b),
        ("jump_label_if_less", |a, b| a < b),
        ("jump_label_if_less_or_equal", |a, b| a <= b),
        ("jump_label_if_greater", |a, b| a > b),
        ("jump_label_if_greater_or_equal", |a, b| a >= b),
    ];
    for (k, (name, f)) in two.iter().enumerate() {
        if !want(name) {
            continue;
        }
        for &x in &temps {
            for &y in &temps {
                if !P::cmp_pre(x, y) {
                    continue;
                }
                let mut code = vec![];
                let l = "TAKEN".to_string();
                match k {
                    0 => B::jump_label_if_equal(x, y, l, &mut code),
                    1 => B::jump_label_if_not_equal(x, y, l, &mut code),
                    2 => B::jump_label_if_less(x, y, l, &mut code),
                    3 => B::jump_label_if_less_or_equal(x, y, l, &mut code),
                    4 => B::jump_label_if_greater(x, y, l, &mut code),
                    _ => B::jump_label_if_greater_or_equal(x, y, l, &mut code),
                }
                for &a in &VALUES {
                    for &b in &VALUES {
                        let bb = if x == y { a } else { b };
                        *cases += 1;
                        let mut st = init::<M>(seed, &temps);
                        st.set(x, a);
                        st.set(y, bb);
                        let before = st.clone();
                        let exit = st.exec(&code);
                        let exp = f(a as i64, bb as i64);
                        let input = format!("{name}(fst={x:?} = {a:#x}, snd={y:?} = {bb:#x})");
                        let taken = match &exit {
                            Exit::Label(l) if l == "TAKEN" => true,
                            Exit::FellOff => false,
                            e => {
                                report(name, format!("execution ended with {e:?}"), input, &code, &mut found);
                                continue;
                            }
                        };
                        if taken != exp {
                            report(name, format!("branch taken = {taken}, expected {exp}"), input, &code, &mut found);
                        } else if let Err(e) = frame_check(&before, &st, &[], false) {
                            report(name, e, input, &code, &mut found);
                        }
                    }
                }
            }
        }
    }
    let one: [(&str, Cmp); 6] = [
        ("jump_label_if_zero", |a, _| a == 0),
        ("jump_label_if_not_zero", |a, _| a != 0),
        ("jump_label_if_less_zero", |a, _| a < 0),
        ("jump_label_if_less_or_equal_zero", |a, _| a <= 0),
        ("jump_label_if_greater_zero", |a, _| a > 0),
        ("jump_label_if_greater_or_equal_zero", |a, _| a >= 0),
    ];
    for (k, (name, f)) in one.iter().enumerate() {
        if !want(name) {
            continue;
        }
        for &x in &temps {
            let mut code = vec![];
            let l = "TAKEN".to_string();
            match k {
                0 => B::jump_label_if_zero(x, l, &mut code),
                1 => B::jump_label_if_not_zero(x, l, &mut code),
                2 => B::jump_label_if_less_zero(x, l, &mut code),
                3 => B::jump_label_if_less_or_equal_zero(x, l, &mut code),
                4 => B::jump_label_if_greater_zero(x, l, &mut code),
                _ => B::jump_label_if_greater_or_equal_zero(x, l, &mut code),
            }
            for &a in &VALUES {
                *cases += 1;
                let mut st = init::<M>(seed, &temps);
                st.set(x, a);
                let before = st.clone();
                let exit = st.exec(&code);
                let exp = f(a as i64, 0);
                let input = format!("{name}(temporary={x:?} = {a:#x})");
                let taken = match &exit {
                    Exit::Label(l) if l == "TAKEN" => true,
                    Exit::FellOff => false,
                    e => {
                        report(name, format!("execution ended with {e:?}"), input, &code, &mut found);
                        continue;
                    }
                };
                if taken != exp {
                    report(name, format!("branch taken = {taken}, expected {exp}"), input, &code, &mut found);
                } else if let Err(e) = frame_check(&before, &st, &[], false) {
                    report(name, e, input, &code, &mut found);
                }
            }
        }
    }
    // ---- jumps through temporaries ---------------------------------------------------------------
    if want("jump") {
        for &x in &temps {
            let mut code = vec![];
            B::jump(x, &mut code);
            *cases += 1;
            let mut st = init::<M>(seed, &temps);
            let v = st.get(x);
            let before = st.clone();
            let exit = st.exec(&code);
            let input = format!("jump(temporary={x:?} = {v:#x})");
            if exit != Exit::Reg(v) {
                report("jump", format!("execution ended with {exit:?}, expected an indirect jump to {v:#x}"), input, &code, &mut found);
            } else if let Err(e) = frame_check(&before, &st, &[], false) {
                report("jump", e, input, &code, &mut found);
            }
        }
    }
    if want("add_and_jump") {
        for &x in &temps {
            for i in [0i64, 4, 5, 20, 4092, 4095, 4096, 5000, 40000] {
                if !P::imm_ok_add_and_jump(i) {
                    continue;
                }
                let mut code = vec![];
                B::add_and_jump(x, B::i64_to_immediate(i), &mut code);
                *cases += 1;
                let mut st = init::<M>(seed, &temps);
                let v = st.get(x);
                let before = st.clone();
                let exit = st.exec(&code);
                let input = format!("add_and_jump(temporary={x:?} = {v:#x}, immediate={i})");
                if exit != Exit::Reg(v.wrapping_add(i as u64)) {
                    report("add_and_jump", format!("execution ended with {exit:?}, expected an indirect jump to {:#x}", v.wrapping_add(i as u64)), input, &code, &mut found);
                } else if let Err(e) = frame_check(&before, &st, &[x], false) {
                    report("add_and_jump", e, input, &code, &mut found);
                }
            }
        }
    }
    if want("load_label") {
        for &x in &temps {
            let mut code = vec![];
            B::load_label(x, "some_label".to_string(), &mut code);
            *cases += 1;
            let mut st = init::<M>(seed, &temps);
            let before = st.clone();
            let exit = st.exec(&code);
            let input = format!("load_label(temporary={x:?})");
            if exit != Exit::FellOff || st.get(x) != crate::x86::label_addr("some_label") {
                report("load_label", format!("exit {exit:?}, target holds {:#x}", st.get(x)), input, &code, &mut found);
            } else if let Err(e) = frame_check(&before, &st, &[x], false) {
                report("load_label", e, input, &code, &mut found);
            }
        }
    }
    found
}

// ---- per-backend operand disciplines (mirrors of the `requires` clauses) ------------------------
pub struct X86Pre;
impl Pre<crate::x86::X86> for X86Pre {
    fn temps() -> Vec<axcut2x86_64::config::Temporary> {
        use axcut2x86_64::config::*;
        let mut v: Vec<Temporary> = [1usize, 4, 5, 6, 7, 9, 15].iter().map(|&r| Temporary::Register(Register(r))).collect();
        v.extend([1usize, 2, 3, 255].iter().map(|&k| Temporary::Spill(Spill(k))));
        v
    }
    fn op_pre(op: Op, t: axcut2x86_64::config::Temporary, s1: axcut2x86_64::config::Temporary, s2: axcut2x86_64::config::Temporary) -> bool {
        use axcut2x86_64::config::*;
        let temp = Temporary::Register(Register(1));
        let is_spill = |x: Temporary| matches!(x, Temporary::Spill(_));
        match op {
            Op::Add => !(is_spill(t) && t != s1 && t != s2) || s2 != temp,
            Op::Sub => s2 != temp || t == s1 || (!is_spill(t) && t != s2),
            Op::Mul => !is_spill(t) || (t != s1 && t != s2 && s2 != temp),
            Op::Div | Op::Rem => {
                let rax = Temporary::Register(Register(4));
                let rdx = Temporary::Register(Register(5));
                t != s1 && t != s2 && t != rax && t != rdx && t != temp && s1 != rax && s2 != rax && s1 != temp && s2 != temp
            }
        }
    }
    fn cmp_pre(_a: axcut2x86_64::config::Temporary, _b: axcut2x86_64::config::Temporary) -> bool {
        true
    }
    fn imm_ok_add_and_jump(i: i64) -> bool {
        i >= i32::MIN as i64 && i <= i32::MAX as i64
    }
    fn slot0_scratch() -> bool {
        false
    }
}

pub struct A64Pre;
impl Pre<crate::a64::A64> for A64Pre {
    fn temps() -> Vec<axcut2aarch64::config::Temporary> {
        use axcut2aarch64::config::*;
        let mut v: Vec<Temporary> = [2usize, 4, 5, 10, 11, 29].iter().map(|&r| Temporary::Register(Register::X(r))).collect();
        v.extend([1usize, 2, 255].iter().map(|&k| Temporary::Spill(Spill(k))));
        v
    }
    fn op_pre(_op: Op, t: axcut2aarch64::config::Temporary, s1: axcut2aarch64::config::Temporary, s2: axcut2aarch64::config::Temporary) -> bool {
        use axcut2aarch64::config::*;
        let temp = Temporary::Register(Register::X(2));
        let var = |x: Temporary| match x {
            Temporary::Register(Register::X(n)) => n >= 4,
            Temporary::Spill(k) => k.0 >= 1,
            _ => false,
        };
        (var(t) || t == temp) && (var(s1) || (s1 == temp && t == temp)) && var(s2)
    }
    fn cmp_pre(a: axcut2aarch64::config::Temporary, b: axcut2aarch64::config::Temporary) -> bool {
        use axcut2aarch64::config::*;
        let temp = Temporary::Register(Register::X(2));
        a != temp && b != temp
    }
    fn imm_ok_add_and_jump(i: i64) -> bool {
        (0..=4095).contains(&i)
    }
    fn slot0_scratch() -> bool {
        true
    }
}

pub struct RvPre;
impl Pre<crate::rv::Rv> for RvPre {
    fn temps() -> Vec<axcut2rv64::config::Register> {
        [4usize, 5, 6, 10, 31].iter().map(|&r| axcut2rv64::config::Register(r)).collect()
    }
    fn op_pre(_op: Op, _t: axcut2rv64::config::Register, _s1: axcut2rv64::config::Register, _s2: axcut2rv64::config::Register) -> bool {
        true
    }
    fn cmp_pre(_a: axcut2rv64::config::Register, _b: axcut2rv64::config::Register) -> bool {
        true
    }
    fn imm_ok_add_and_jump(_i: i64) -> bool {
        true
    }
    fn slot0_scratch() -> bool {
        false
    }
}

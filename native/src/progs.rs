//! C05 (bounded): linearization yields exact environments and preserves behaviour.
//! C06/C07/C08 (bounded): whole small programs compiled by the real coder + routine behave on the
//! machine model like the AxCut abstract machine (same print calls with the same arguments, same result).
use crate::axmachine::{self, Outcome};
use crate::progen::Gen;
use crate::linwf;
use crate::machine::*;
use crate::report::*;
use axcut::syntax::{Prog, Statement};
use axcut2backend::code::Instructions;
use axcut2backend::config::{Config, TemporaryNumber};
use axcut2backend::memory::Memory;
use axcut2backend::parallel_moves::ParallelMoves;
use axcut2backend::utils::Utils;
use printer::Print;

pub const STEPS: usize = 20_000;

pub fn show(prog: &Prog) -> Vec<String> {
    prog.print_to_string(None).lines().map(|l| l.to_string()).collect()
}

fn has_print(s: &Statement) -> bool {
    match s {
        Statement::PrintI64(_) => true,
        Statement::Substitute(x) => has_print(&x.next),
        Statement::Let(x) => has_print(&x.next),
        Statement::Switch(x) => x.clauses.iter().any(|c| has_print(&c.body)),
        Statement::Create(x) => has_print(&x.next) || x.clauses.iter().any(|c| has_print(&c.body)),
        Statement::Literal(x) => has_print(&x.next),
        Statement::Op(x) => has_print(&x.next),
        Statement::IfC(x) => has_print(&x.thenc) || has_print(&x.elsec),
        _ => false,
    }
}

pub fn print_free(p: &Prog) -> bool {
    !p.defs.iter().any(|d| has_print(&d.body))
}

/// C05: returns Ok(nontrivial?) where nontrivial means at least one substitution was inserted
pub fn check_linearize(seed: u64, depth: usize) -> Result<bool, Failure> {
    let (prog, args) = Gen::program(seed, depth, 7);
    let before = axmachine::run(&prog, &args, STEPS, false);
    let mut lin = prog.clone();
    lin.linearize();
    let fail = |what: String| Failure { what, input: format!("generator seed {seed}, depth {depth}, main arguments {args:?}"), instructions: show(&prog), detail: show(&lin).join("\n") };
    if let Err(e) = linwf::check_prog(&lin) {
        return Err(fail(format!("the linearized program is not exact: {e}")));
    }
    let after = axmachine::run(&lin, &args, STEPS, true);
    if before.stuck.as_deref().map(|s| s.starts_with("UNDEFINED") || s == "step limit").unwrap_or(false) {
        return Ok(false);
    }
    if let Some(s) = &before.stuck {
        // the generator produced an ill-formed program: a harness problem, not a finding
        return Err(fail(format!("HARNESS: the generated non-linear program is stuck: {s}")));
    }
    if before != after {
        return Err(fail(format!("behaviour changed by linearization: before {before:?}, after {after:?}")));
    }
    let printed_before = show(&prog).join("\n");
    Ok(show(&lin).join("\n") != printed_before)
}

pub struct Target<M: Machine> {
    pub arg_regs: Vec<usize>,
    pub ret_reg: usize,
    pub entry_sp: u64,
    pub into_routine: Option<fn(axcut2backend::coder::AssemblyProg<M::Code>) -> axcut2backend::coder::AssemblyProg<M::Code>>,
}

pub fn check_program<B, M, I>(seed: u64, depth: usize, max_env: usize, tgt: &Target<M>) -> Result<bool, Failure>
where
    M: Machine,
    M::Temp: Ord + std::hash::Hash + Copy,
    B: Config<M::Temp, I> + Instructions<M::Code, M::Temp, I> + Memory<M::Code, M::Temp> + ParallelMoves<M::Code, M::Temp> + Utils<M::Temp>,
{
    let (prog, args) = Gen::program(seed, depth, max_env);
    if tgt.into_routine.is_none() && !print_free(&prog) {
        return Ok(false);
    }
    let mut lin = prog.clone();
    lin.linearize();
    let want: Outcome = axmachine::run(&lin, &args, STEPS, true);
    if want.stuck.is_some() {
        return Ok(false);
    }
    let main_ctx = lin.defs[0].context.clone();
    let compiled = {
        let _g = crate::GEN_LOCK.lock().unwrap_or_else(|e| e.into_inner());
        let r = std::panic::catch_unwind(std::panic::AssertUnwindSafe(|| {
            let asm = axcut2backend::coder::compile::<B, _, _, _>(lin.clone());
            match tgt.into_routine {
                Some(f) => f(asm),
                None => asm,
            }
        }));
        match r {
            Ok(a) => a,
            Err(p) => {
                let msg = p.downcast_ref::<String>().cloned().or_else(|| p.downcast_ref::<&str>().map(|s| s.to_string())).unwrap_or_default();
                if msg.contains("Out of registers") || msg.contains("Out of temporaries") {
                    return Ok(false); // beyond the backend's documented capacity
                }
                return Err(Failure { what: format!("the code generator panicked: {msg}"), input: format!("generator seed {seed}, depth {depth}, max_env {max_env}"), instructions: show(&lin), detail: String::new() });
            }
        }
    };
    let code = compiled.instructions;
    let mut st = M::new(seed);
    st.set_zero_region(crate::heap::HEAP_BASE, crate::heap::HEAP_BASE + (1 << 30));
    match tgt.into_routine {
        Some(_) => {
            st.set_sp(tgt.entry_sp);
            st.set_reg(tgt.arg_regs[0], crate::heap::HEAP_BASE);
            for (i, a) in args.iter().enumerate() {
                st.set_reg(tgt.arg_regs[1 + i], *a as u64);
            }
        }
        None => {
            // RISC-V: heap and free pointers initialised as on the other backends, parameters in their registers
            st.set(B::heap(), crate::heap::HEAP_BASE);
            st.set(B::free(), crate::heap::HEAP_BASE + 64);
            for (b, a) in main_ctx.bindings.iter().zip(args.iter()) {
                st.set(B::variable_temporary(TemporaryNumber::Snd, &main_ctx, b.var.id), *a as u64);
            }
        }
    }
    let exit = st.exec(&code);
    let fail = |what: String| Failure { what, input: format!("generator seed {seed}, depth {depth}, max_env {max_env}, main arguments {args:?}"), instructions: show(&lin), detail: M::render(&code).join("\n") };
    let ok_exit = match tgt.into_routine {
        Some(_) => exit == Exit::Ret,
        None => exit == Exit::Label("cleanup".into()),
    };
    if !ok_exit {
        return Err(fail(format!("execution of the generated code ended with {exit:?}; the AxCut machine yields {want:?}")));
    }
    let got_prints: Vec<(bool, i64)> = st.calls().iter().map(|(n, a)| (n == "println_i64", *a as i64)).collect();
    if got_prints != want.prints {
        return Err(fail(format!("print calls differ: generated code {got_prints:?}, AxCut machine {:?}", want.prints)));
    }
    let got = st.reg(tgt.ret_reg) as i64;
    if Some(got) != want.result {
        return Err(fail(format!("result differs: generated code returns {got}, AxCut machine {:?}", want.result)));
    }
    Ok(true)
}

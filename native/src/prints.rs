//! C13 (bounded): the save / align / call / restore sequence around the print runtime, and the
//! whole routine skeleton (prologue, argument shuffle, exit, epilogue), executed on the machine
//! models whose call model destroys every caller-saved register, the flags, the link register and
//! all stack memory below the stack pointer, and faults on a misaligned stack pointer.
use crate::machine::*;
use crate::report::*;
use axcut::syntax::statements::Exit as ExitStmt;
use axcut::syntax::{Chirality, ContextBinding, Def, Identifier, Prog, Statement, Ty, TypingContext};
use axcut2backend::code::Instructions;
use axcut2backend::config::{Config, TemporaryNumber};
use axcut2backend::utils::Utils;

fn ident(name: &str, id: usize) -> Identifier {
    Identifier { name: name.to_string(), id }
}

#[derive(Clone, Debug)]
pub struct PrintCase {
    pub live: usize,
    /// kinds of the live variables (true = Ext)
    pub kinds: Vec<bool>,
    /// index of the printed (integer) variable
    pub arg: usize,
    pub newline: bool,
}

pub fn print_cases(max_live: usize, inspected: usize) -> Vec<PrintCase> {
    let mut out = vec![];
    for live in 1..=max_live {
        let k = live.min(inspected);
        for mask in 0..(1u32 << k) {
            for rest_ext in [true, false] {
                if live <= inspected && !rest_ext {
                    continue;
                }
                let kinds: Vec<bool> = (0..live).map(|i| if i < k { (mask >> i) & 1 == 1 } else { rest_ext }).collect();
                for arg in 0..live {
                    if !kinds[arg] {
                        continue;
                    }
                    // all positions for small contexts; first, boundary and last ones for larger
                    if live > 8 && !(arg < 2 || arg + 2 >= live || arg == inspected || arg + 1 == inspected || arg == live / 2) {
                        continue;
                    }
                    out.push(PrintCase { live, kinds: kinds.clone(), arg, newline: (mask + live as u32) % 2 == 0 });
                }
            }
        }
    }
    out
}

pub fn run_print<B, M, I>(case: &PrintCase, seed: u64) -> Result<(), Failure>
where
    M: Machine,
    B: Config<M::Temp, I> + Instructions<M::Code, M::Temp, I> + Utils<M::Temp>,
{
    let bindings: Vec<ContextBinding> = case
        .kinds
        .iter()
        .enumerate()
        .map(|(i, &ext)| ContextBinding {
            var: ident("v", 10 + i),
            chi: if ext { Chirality::Ext } else if i % 2 == 0 { Chirality::Prd } else { Chirality::Cns },
            ty: if ext { Ty::I64 } else { Ty::Decl(ident("T", 0)) },
        })
        .collect();
    let ctx = TypingContext { bindings: bindings.clone() };
    let src = B::variable_temporary(TemporaryNumber::Snd, &ctx, 10 + case.arg);
    let mut code: Vec<M::Code> = vec![];
    B::print_i64(case.newline, src, &ctx.bindings, &mut code);
    let mut st = M::new(seed);
    let mut rng = Rng(seed.wrapping_mul(131).wrapping_add(5) | 1);
    let mut live: Vec<(M::Temp, u64, String)> = vec![];
    for (i, b) in bindings.iter().enumerate() {
        let ts = B::variable_temporary(TemporaryNumber::Snd, &ctx, b.var.id);
        let v = rng.next();
        st.set(ts, v);
        live.push((ts, v, format!("second temporary of variable #{i}")));
        if b.chi != Chirality::Ext {
            let tf = B::variable_temporary(TemporaryNumber::Fst, &ctx, b.var.id);
            let v = rng.next();
            st.set(tf, v);
            live.push((tf, v, format!("first temporary of variable #{i}")));
        }
    }
    let heap_v = rng.next();
    let free_v = rng.next();
    st.set(B::heap(), heap_v);
    st.set(B::free(), free_v);
    live.push((B::heap(), heap_v, "heap register".into()));
    live.push((B::free(), free_v, "free register".into()));
    let argv = st.get(src);
    let sp0 = st.sp();
    let exit = st.exec(&code);
    let fail = |what: String| Failure { what, input: format!("{case:?}"), instructions: M::render(&code), detail: String::new() };
    if exit != Exit::FellOff {
        return Err(fail(format!("execution ended with {exit:?}")));
    }
    let want = if case.newline { "println_i64" } else { "print_i64" };
    if st.calls().len() != 1 || st.calls()[0].0 != want {
        return Err(fail(format!("expected exactly one call of {want}, observed {:?}", st.calls())));
    }
    if st.calls()[0].1 != argv {
        return Err(fail(format!("the argument register held {:#x} at the call, the printed variable holds {argv:#x}", st.calls()[0].1)));
    }
    if st.sp() != sp0 {
        return Err(fail(format!("stack pointer not restored: {:#x} -> {:#x}", sp0, st.sp())));
    }
    for (t, v, what) in live {
        if st.get(t) != v {
            return Err(fail(format!("{what} ({t:?}) does not survive the call: held {v:#x}, now {:#x}", st.get(t))));
        }
    }
    Ok(())
}

/// Whole-routine check: `def main(x1..xn) { exit xk }` compiled by the real `compile` + `into_*_routine`,
/// interpreted from `asm_main` to `RET` with random entry registers.
pub fn run_routine<B, M, I>(
    n: usize,
    k: usize,
    seed: u64,
    arg_regs: &[usize],
    callee_saved: &[usize],
    ret_reg: usize,
    into_routine: fn(axcut2backend::coder::AssemblyProg<M::Code>) -> axcut2backend::coder::AssemblyProg<M::Code>,
    entry_sp: u64,
) -> Result<(), Failure>
where
    M: Machine,
    M::Temp: Ord + std::hash::Hash + Copy,
    B: Config<M::Temp, I>
        + Instructions<M::Code, M::Temp, I>
        + axcut2backend::memory::Memory<M::Code, M::Temp>
        + axcut2backend::parallel_moves::ParallelMoves<M::Code, M::Temp>
        + Utils<M::Temp>,
{
    let bindings: Vec<ContextBinding> = (0..n).map(|i| ContextBinding { var: ident("x", 1 + i), chi: Chirality::Ext, ty: Ty::I64 }).collect();
    let body = if n == 0 {
        // no parameter to return: return a literal through the generic statement code
        Statement::Literal(axcut::syntax::statements::Literal {
            lit: 42,
            var: ident("r", 99),
            next: std::rc::Rc::new(Statement::Exit(ExitStmt { var: ident("r", 99) })),
            free_vars_next: None,
        })
    } else {
        Statement::Exit(ExitStmt { var: ident("x", 1 + k) })
    };
    let prog = Prog { defs: vec![Def { name: ident("main", 0), context: TypingContext { bindings }, body }], types: vec![], max_id: 100 };
    let asm = {
        let _g = crate::GEN_LOCK.lock().unwrap_or_else(|e| e.into_inner());
        into_routine(axcut2backend::coder::compile::<B, _, _, _>(prog))
    };
    let code = asm.instructions;
    let mut st = M::new(seed);
    st.set_sp(entry_sp);
    let heap_arg = 0x50_0000u64;
    st.set_reg(arg_regs[0], heap_arg);
    let mut rng = Rng(seed.wrapping_mul(17).wrapping_add(3) | 1);
    let mut args = vec![];
    for i in 0..n {
        let v = rng.next();
        st.set_reg(arg_regs[1 + i], v);
        args.push(v);
    }
    let saved: Vec<u64> = callee_saved.iter().map(|&r| st.reg(r)).collect();
    // words at and above the entry stack pointer belong to the caller
    let mut caller_words = vec![];
    for j in 0..4u64 {
        let a = entry_sp + 8 * j;
        let v = rng.next();
        st.mem_mut().insert(a, v);
        caller_words.push((a, v));
    }
    let exit = st.exec(&code);
    let fail = |what: String| Failure { what, input: format!("main with {n} parameters, exit x{}", k + 1), instructions: M::render(&code), detail: String::new() };
    if exit != Exit::Ret {
        return Err(fail(format!("execution from asm_main ended with {exit:?} instead of returning")));
    }
    if st.sp() != entry_sp {
        return Err(fail(format!("stack pointer at return {:#x} differs from its entry value {entry_sp:#x}", st.sp())));
    }
    for (i, &r) in callee_saved.iter().enumerate() {
        if st.reg(r) != saved[i] {
            return Err(fail(format!("callee-saved register {r} not restored: {:#x} -> {:#x}", saved[i], st.reg(r))));
        }
    }
    let want = if n == 0 { 42 } else { args[k] };
    if st.reg(ret_reg) != want {
        return Err(fail(format!("result register holds {:#x}, expected parameter {} = {want:#x}", st.reg(ret_reg), k + 1)));
    }
    for (a, v) in caller_words {
        if st.mem().get(&a) != Some(&v) {
            return Err(fail(format!("caller's stack word {a:#x} was overwritten")));
        }
    }
    Ok(())
}

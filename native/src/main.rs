//! scc_native <check> [--tier quick|thorough] [--seed N] [--case "<debug string>"]
//! Bounded native contract checks and counterexample replay on the REAL code-generation functions.
mod a64;
mod axmachine;
mod progen;
mod linwf;
mod progs;
mod emitters;
mod heap;
mod labels;
mod machine;
mod moves;
mod prints;
mod report;
mod rv;
mod x86;

use machine::*;
use report::*;
use std::sync::atomic::{AtomicU64, Ordering};
use std::sync::{Arc, Mutex};

pub static GEN_LOCK: Mutex<()> = Mutex::new(());

type X86B = axcut2x86_64::Backend;
type A64B = axcut2aarch64::Backend;
type RvB = axcut2rv64::Backend;

fn par_run<C: Send + Sync + std::fmt::Debug + 'static>(cases: Vec<C>, f: impl Fn(&C) -> Result<(), Failure> + Send + Sync + 'static) -> (u64, Vec<Failure>) {
    let n = std::thread::available_parallelism().map(|x| x.get()).unwrap_or(4).min(16);
    let cases = Arc::new(cases);
    let next = Arc::new(AtomicU64::new(0));
    let fails = Arc::new(Mutex::new(Vec::new()));
    let f = Arc::new(f);
    let mut hs = vec![];
    for _ in 0..n {
        let (cases, next, fails, f) = (cases.clone(), next.clone(), fails.clone(), f.clone());
        hs.push(std::thread::spawn(move || loop {
            let i = next.fetch_add(1, Ordering::Relaxed) as usize;
            if i >= cases.len() {
                break;
            }
            if fails.lock().unwrap().len() >= 5 {
                break;
            }
            // a panic inside the real code generator (capacity assertion etc.) is reported as a failure of that case
            let r = std::panic::catch_unwind(std::panic::AssertUnwindSafe(|| f(&cases[i])));
            match r {
                Ok(Ok(())) => {}
                Ok(Err(e)) => fails.lock().unwrap().push(e),
                Err(p) => {
                    let msg = p.downcast_ref::<String>().cloned().or_else(|| p.downcast_ref::<&str>().map(|s| s.to_string())).unwrap_or_default();
                    fails.lock().unwrap().push(Failure { what: format!("the code generator panicked: {msg}"), input: { let mut d = format!("case #{i}: {:?}", cases[i]); d.truncate(4000); d }, instructions: vec![], detail: String::new() })
                }
            }
        }));
    }
    for h in hs {
        let _ = h.join();
    }
    let total = cases.len() as u64;
    let fl = fails.lock().unwrap().clone();
    (total, fl)
}

fn check_moves(tier: &str, seed: u64) -> Vec<Summary> {
    let mut out = vec![];
    let thorough = tier == "thorough";
    let (mm, nn) = if thorough { (5, 5) } else { (4, 4) };
    // window offsets across the register/spill boundary: x86-64 boundary at variable 6, AArch64 at 13, RISC-V capacity 14
    macro_rules! one {
        ($B:ty, $M:ty, $offs:expr, $maxvars:expr, $name:expr) => {{
            let offs: Vec<usize> = $offs;
            let mut cases = moves::enumerate(mm, nn, &offs, true);
            let exhaustive_n = cases.len();
            let mut rng = Rng(seed.wrapping_add(0x5eed) | 1);
            let extra = if thorough { 100_000 } else { 20_000 };
            for _ in 0..extra {
                let c = moves::random_case(&mut rng, 8, *offs.iter().max().unwrap());
                if c.offset + c.kinds.len().max(c.map.len()) <= $maxvars {
                    cases.push(c);
                }
            }
            // keep within the backend's capacity
            cases.retain(|c| c.offset + c.kinds.len().max(c.map.len()) <= $maxvars);
            let nontrivial = cases.iter().filter(|c| c.map.iter().enumerate().any(|(j, &s)| j != s) || c.map.len() != c.kinds.len()).count() as u64;
            let samples: Vec<String> = cases.iter().step_by((cases.len() / 3).max(1)).take(3).map(|c| format!("{c:?}")).collect();
            let (total, fails) = par_run(cases, move |c| moves::run_case::<$B, $M, _>(c, seed));
            let mut s = Summary::default();
            s.check = format!("moves/{}", $name);
            s.bound = format!("all maps new(m<={mm}) -> old(n<={nn}) x all kind assignments x window offsets {:?} ({} cases, exhaustive) + {} random maps of up to 8 variables", offs, exhaustive_n, total as usize - exhaustive_n.min(total as usize));
            s.cases = total;
            s.nontrivial = nontrivial;
            s.exhaustive = true;
            s.samples = samples;
            s.violations = fails.iter().map(|f| f.json(&format!("native::{}::Substitute::code_statement::simultaneous-assignment", $name), $name)).collect();
            out.push(s);
        }};
    }
    one!(X86B, x86::X86, vec![0, 2, 3, 4, 5, 6, 7, 8], 100, "x86_64");
    one!(A64B, a64::A64, vec![0, 8, 9, 10, 11, 12, 13, 14, 16], 100, "aarch64");
    one!(RvB, rv::Rv, vec![0, 3, 6, 9], 14, "rv64");
    out
}

fn check_emitters(seed: u64, only: Option<&str>, backend: Option<&str>) -> Vec<Summary> {
    let mut out = vec![];
    macro_rules! one {
        ($B:ty, $M:ty, $P:ty, $name:expr) => {{
            if backend.map(|b| b == $name).unwrap_or(true) {
                let mut cases = 0u64;
                let found = emitters::check::<$B, $M, _, $P>(seed, only, &mut cases);
                let mut s = Summary::default();
                s.check = format!("emitters/{}", $name);
                s.bound = format!("every Instructions emitter x operand placements {:?} (subject to the contract's precondition) x {} boundary values per operand; load_immediate: {} fixed + 200 random halfword mixtures", <$P as emitters::Pre<$M>>::temps(), emitters::VALUES.len(), emitters::IMMS.len());
                s.cases = cases;
                s.nontrivial = cases;
                s.exhaustive = false;
                s.samples = vec![format!("add/sub/mul/div/rem, mov, load_immediate, 12 compare-and-branch forms, jump, add_and_jump, load_label on {}", $name)];
                s.violations = found.iter().map(|f| f.failure.json(&f.obligation, $name)).collect();
                out.push(s);
            }
        }};
    }
    one!(X86B, x86::X86, emitters::X86Pre, "x86_64");
    one!(A64B, a64::A64, emitters::A64Pre, "aarch64");
    one!(RvB, rv::Rv, emitters::RvPre, "rv64");
    out
}

fn check_prints(tier: &str, seed: u64) -> Vec<Summary> {
    let mut out = vec![];
    let max_live = if tier == "thorough" { 24 } else { 20 };
    macro_rules! one {
        ($B:ty, $M:ty, $inspected:expr, $name:expr) => {{
            let cases = prints::print_cases(max_live, $inspected);
            let samples: Vec<String> = cases.iter().step_by((cases.len() / 3).max(1)).take(3).map(|c| format!("{c:?}")).collect();
            let n = cases.len() as u64;
            let (total, fails) = par_run(cases, move |c| {
                let _g = GEN_LOCK.lock().unwrap_or_else(|e| e.into_inner());
                prints::run_print::<$B, $M, _>(c, seed)
            });
            let mut s = Summary::default();
            s.check = format!("prints/{}", $name);
            s.bound = format!("print_i64 / println_i64 with 1..{max_live} live variables x every Ext/non-Ext assignment of the first {} bindings (the ones the save code inspects) x both extremes for the rest x argument positions (all for <= 8 variables; first, boundary, middle, last otherwise)", $inspected);
            s.cases = total;
            s.nontrivial = n;
            s.exhaustive = true;
            s.samples = samples;
            s.violations = fails.iter().map(|f| f.json(&format!("native::{}::print_i64::call-sequence", $name), $name)).collect();
            out.push(s);
        }};
    }
    one!(X86B, x86::X86, 4, "x86_64");
    one!(A64B, a64::A64, 7, "aarch64");
    // whole routine: prologue, argument shuffle, exit, epilogue
    let mut s = Summary::default();
    s.check = "routine/x86_64".into();
    s.bound = "def main(x1..xn) { exit xk } for n = 0..5, every k, compiled by coder::compile + into_x86_64_routine, interpreted from asm_main to ret".into();
    s.exhaustive = true;
    for n in 0..=5usize {
        for k in 0..n.max(1) {
            s.cases += 1;
            s.nontrivial += 1;
            let r = std::panic::catch_unwind(|| prints::run_routine::<X86B, x86::X86, _>(n, k, seed, &[7, 6, 5, 1, 8, 9], &[2, 3, 12, 13, 14, 15], 4, axcut2x86_64::into_routine::into_x86_64_routine, 0x7fff_0000_1008));
            match r {
                Ok(Ok(())) => {}
                Ok(Err(f)) => s.violations.push(f.json("native::x86_64::routine::calling-convention", "x86_64")),
                Err(_) => s.violations.push(Failure { what: "code generator panicked".into(), input: format!("n={n} k={k}"), instructions: vec![], detail: String::new() }.json("native::x86_64::routine::calling-convention", "x86_64")),
            }
        }
    }
    s.samples = vec!["main(x1,x2,x3) { exit x2 }".into()];
    out.push(s);
    let mut s = Summary::default();
    s.check = "routine/aarch64".into();
    s.bound = "def main(x1..xn) { exit xk } for n = 0..7, every k, compiled by coder::compile + into_aarch64_routine, interpreted from asm_main to RET".into();
    s.exhaustive = true;
    for n in 0..=7usize {
        for k in 0..n.max(1) {
            s.cases += 1;
            s.nontrivial += 1;
            let cs: Vec<usize> = (18..30).collect();
            let r = std::panic::catch_unwind(|| prints::run_routine::<A64B, a64::A64, _>(n, k, seed, &[0, 1, 2, 3, 4, 5, 6, 7], &cs, 0, axcut2aarch64::into_routine::into_aarch64_routine, 0x7fff_0000_1000));
            match r {
                Ok(Ok(())) => {}
                Ok(Err(f)) => s.violations.push(f.json("native::aarch64::routine::calling-convention", "aarch64")),
                Err(_) => s.violations.push(Failure { what: "code generator panicked".into(), input: format!("n={n} k={k}"), instructions: vec![], detail: String::new() }.json("native::aarch64::routine::calling-convention", "aarch64")),
            }
        }
    }
    s.samples = vec!["main(x1..x7) { exit x5 }".into()];
    out.push(s);
    out
}

fn check_heap(tier: &str, seed: u64, backend: Option<&str>) -> Vec<Summary> {
    let mut out = vec![];
    let (nseq, len) = if tier == "thorough" { (4000usize, 120usize) } else { (400, 70) };
    macro_rules! one {
        ($B:ty, $M:ty, $cap:expr, $name:expr) => {{
            if backend.map(|b| b == $name).unwrap_or(true) {
            let mut rng = Rng(seed.wrapping_add(0xA11C) | 1);
            let mut cases = vec![];
            for k in 0..nseq {
                // a third of the sequences stay small (register-only), the others cross the spill boundary
                let maxv = if k % 3 == 0 { 5 } else { $cap };
                cases.push((heap::random_ops(&mut rng, len, maxv), rng.next()));
            }
            // directed scenarios: an object of k fields created in a small environment and consumed behind n_left
            // other variables (block pointer in a register or in a spill slot), shared or not
            let mut directed = 0u64;
            for k in 0..=8usize {
                for n_left in 0..$cap {
                    if n_left + 1 + k + 2 > $cap {
                        continue;
                    }
                    for share in [false, true] {
                        if share && n_left + 2 + 2 * k + 1 > $cap {
                            continue;
                        }
                        for ptr_every in [0usize, 2, 3] {
                            cases.push((heap::directed_ops(n_left, k, share, ptr_every), rng.next()));
                            directed += 1;
                        }
                    }
                }
            }
            let samples: Vec<String> = cases.iter().take(1).map(|(o, _)| format!("{:?}", &o[..o.len().min(12)])).collect();
            let audits = Arc::new(AtomicU64::new(0));
            let a2 = audits.clone();
            let (total, fails) = par_run(cases, move |(ops, sd)| {
                let n = heap::run_sequence::<$B, $M, _>(ops, *sd, $cap)?;
                a2.fetch_add(n, Ordering::Relaxed);
                Ok(())
            });
            let mut s = Summary::default();
            s.check = format!("heap/{}", $name);
            s.bound = format!("{nseq} random sequences of {len} operations (literal / allocate 0..8 fields / load / substitute) with at most {} live variables + {directed} directed scenarios (object of 0..8 fields created in a small environment, consumed behind 0..{} other variables, shared and unshared, with and without pointer fields); heap audited after every operation", $cap, $cap);
            s.cases = total;
            s.nontrivial = audits.load(Ordering::Relaxed);
            s.exhaustive = false;
            s.samples = samples;
            s.violations = fails.iter().map(|f| f.json(&format!("native::{}::memory::heap-audit", $name), $name)).collect();
            out.push(s);
            }
        }};
    }
    one!(X86B, x86::X86, 24, "x86_64");
    one!(A64B, a64::A64, 30, "aarch64");
    one!(RvB, rv::Rv, 13, "rv64");
    out
}

fn check_linearize(tier: &str, seed: u64) -> Vec<Summary> {
    let n: u64 = if tier == "thorough" { 3_000_000 } else { 60_000 };
    let cases: Vec<(u64, usize)> = (0..n).map(|k| (seed.wrapping_mul(1_000_003).wrapping_add(k * 2 + 1), 2 + (k % 4) as usize)).collect();
    let nontriv = Arc::new(AtomicU64::new(0));
    let nt = nontriv.clone();
    let (total, fails) = par_run(cases, move |(sd, depth)| {
        if progs::check_linearize(*sd, *depth)? {
            nt.fetch_add(1, Ordering::Relaxed);
        }
        Ok(())
    });
    let mut s = Summary::default();
    s.check = "linearize".into();
    s.bound = format!("{n} random well-typed non-linear AxCut programs (1-3 definitions, statement depth 2..5, at most ~10 variables in scope; integers, a two-constructor list, a five-field tuple, closures with one and two methods, calls): exactness of every environment after Prog::linearize and equality of behaviour on the AxCut reference machine");
    s.cases = total;
    s.nontrivial = nontriv.load(Ordering::Relaxed);
    s.samples = vec![format!("Gen::program(seed={}, depth=3)", seed.wrapping_mul(1_000_003).wrapping_add(1))];
    s.violations = fails.iter().map(|f| f.json("native::axcut::Prog::linearize::exact-environments-and-behaviour", "axcut")).collect();
    vec![s]
}

fn check_programs(tier: &str, seed: u64, backend: Option<&str>) -> Vec<Summary> {
    let mut out = vec![];
    let n: u64 = if tier == "thorough" { 400_000 } else { 12_000 };
    macro_rules! one {
        ($B:ty, $M:ty, $name:expr, $maxenv:expr, $tgt:expr) => {{
            if backend.map(|b| b == $name).unwrap_or(true) {
                // the bound on the environment size varies with the case: small environments (registers only), the
                // backend's comfortable size, and larger ones that push more variables into spill slots
                let cases: Vec<(u64, usize, usize)> = (0..n).map(|k| (seed.wrapping_mul(7_000_003).wrapping_add(k * 2 + 1), 2 + (k % 4) as usize,
                    match (k / 4) % 3 { 0 => $maxenv, 1 => $maxenv / 2 + 1, _ => $maxenv + $maxenv / 2 + 2 })).collect();
                let nontriv = Arc::new(AtomicU64::new(0));
                let nt = nontriv.clone();
                let (total, fails) = par_run(cases, move |(sd, depth, menv)| {
                    let tgt = $tgt;
                    if progs::check_program::<$B, $M, _>(*sd, *depth, *menv, &tgt)? {
                        nt.fetch_add(1, Ordering::Relaxed);
                    }
                    Ok(())
                });
                let mut s = Summary::default();
                s.check = format!("programs/{}", $name);
                s.bound = format!("{n} random small programs (as for linearize), linearized, compiled by coder::compile (+ routine), executed on the machine model from its entry with a zero-filled heap; print calls and result compared with the AxCut reference machine; programs outside the backend's capacity or with undefined arithmetic are skipped");
                s.cases = total;
                s.nontrivial = nontriv.load(Ordering::Relaxed);
                s.samples = vec![format!("Gen::program(seed={}, depth=2, max_env={})", seed.wrapping_mul(7_000_003).wrapping_add(1), $maxenv)];
                s.violations = fails.iter().map(|f| f.json(&format!("native::{}::compile::behaves-like-axcut-machine", $name), $name)).collect();
                out.push(s);
            }
        }};
    }
    one!(X86B, x86::X86, "x86_64", 9, progs::Target::<x86::X86> { arg_regs: vec![7, 6, 5, 1, 8, 9], ret_reg: 4, entry_sp: 0x7fff_0000_1008, into_routine: Some(axcut2x86_64::into_routine::into_x86_64_routine) });
    one!(A64B, a64::A64, "aarch64", 16, progs::Target::<a64::A64> { arg_regs: vec![0, 1, 2, 3, 4, 5, 6, 7], ret_reg: 0, entry_sp: 0x7fff_0000_1000, into_routine: Some(axcut2aarch64::into_routine::into_aarch64_routine) });
    one!(RvB, rv::Rv, "rv64", 5, progs::Target::<rv::Rv> { arg_regs: vec![], ret_reg: 10, entry_sp: 0, into_routine: None });
    out
}

fn check_labels(seed: u64) -> Vec<Summary> {
    let corpus = labels::corpus();
    let mut s = Summary::default();
    s.check = "labels".into();
    let mut accepted = 0;
    let mut executed = 0;
    for (p, args) in &corpus {
        let r = std::panic::catch_unwind(|| labels::check_file(p, args, seed));
        match r {
            Ok(fr) => {
                if fr.accepted {
                    accepted += 1;
                }
                executed += fr.executed;
                for (ob, f) in fr.failures {
                    s.violations.push(f.json(&ob, "pipeline"));
                }
            }
            Err(_) => s.violations.push(Failure { what: "the pipeline panicked".into(), input: p.display().to_string(), instructions: vec![], detail: String::new() }.json("native::pipeline::panic", "pipeline")),
        }
    }
    s.cases = corpus.len() as u64;
    s.nontrivial = accepted;
    s.bound = format!("{} Fun programs (the repository's examples and /verif/native/corpus: identifiers resembling generated names, nested generic types, types with 12 constructors / 6 destructors, literals of every magnitude with spilled variables), {accepted} accepted by the real front end, compiled by the real pipeline for three backends; label well-formedness of every emitted file; {executed} executions compared with the AxCut reference machine", corpus.len());
    s.samples = corpus.iter().take(3).map(|(p, a)| format!("{} {:?}", p.display(), a)).collect();
    if accepted < 8 {
        s.violations.push(Failure { what: format!("HARNESS: only {accepted} corpus programs were accepted by the front end"), input: String::new(), instructions: vec![], detail: String::new() }.json("native::pipeline::corpus", "pipeline"));
    }
    vec![s]
}

fn main() {
    let args: Vec<String> = std::env::args().collect();
    let check = args.get(1).cloned().unwrap_or_default();
    let mut tier = "quick".to_string();
    let mut seed = 0u64;
    let mut only: Option<String> = None;
    let mut backend: Option<String> = None;
    let mut i = 2;
    while i < args.len() {
        match args[i].as_str() {
            "--only" => {
                only = Some(args[i + 1].clone());
                i += 1
            }
            "--backend" => {
                backend = Some(args[i + 1].clone());
                i += 1
            }
            "--tier" => {
                tier = args[i + 1].clone();
                i += 1
            }
            "--seed" => {
                seed = args[i + 1].parse().unwrap_or(0);
                i += 1
            }
            _ => {}
        }
        i += 1;
    }
    // silence panic messages of caught panics
    std::panic::set_hook(Box::new(|_| {}));
    let res = match check.as_str() {
        "moves" => check_moves(&tier, seed),
        "linearize" => check_linearize(&tier, seed),
        "programs" => check_programs(&tier, seed, backend.as_deref()),
        "labels" => check_labels(seed),
        "heap" => check_heap(&tier, seed, backend.as_deref()),
        "prints" => check_prints(&tier, seed),
        "emitters" => check_emitters(seed, only.as_deref(), backend.as_deref()),
        _ => {
            eprintln!("unknown check {check}");
            std::process::exit(2)
        }
    };
    println!("[{}]", res.iter().map(|s| s.json()).collect::<Vec<_>>().join(","));
}

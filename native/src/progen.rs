//! Random generator of small well-typed NON-LINEAR AxCut programs (variables may be used several
//! times or not at all), over a fixed set of type declarations that exercises: integers, a recursive
//! data type with two constructors (jump table), a five-field constructor (multi-block objects),
//! codata with one destructor (direct jump) and with two destructors (jump table), closures that
//! capture variables, top-level calls with parameters.
use crate::machine::Rng;
use axcut::syntax::statements::ifc::IfSort;
use axcut::syntax::statements::*;
use axcut::syntax::{BinOp, Chirality, ContextBinding, Def, Identifier, Prog, Statement, Ty, TypeDeclaration, TypingContext, XtorSig};
use std::rc::Rc;

#[derive(Clone, Copy, PartialEq, Debug)]
pub enum K {
    Int,
    List,
    Tup,
    Cont,
    Two,
    /// codata whose destructor takes a closure of the same type (self-application is possible)
    Rec,
}

fn id(name: &str, n: usize) -> Identifier {
    Identifier { name: name.to_string(), id: n }
}
fn tyname(k: K) -> Ty {
    match k {
        K::Int => Ty::I64,
        K::List => Ty::Decl(id("List", 0)),
        K::Tup => Ty::Decl(id("Tup", 0)),
        K::Cont => Ty::Decl(id("Cont", 0)),
        K::Two => Ty::Decl(id("Two", 0)),
        K::Rec => Ty::Decl(id("Rec", 0)),
    }
}
fn chi(k: K) -> Chirality {
    match k {
        K::Int => Chirality::Ext,
        K::List | K::Tup => Chirality::Prd,
        K::Cont | K::Two | K::Rec => Chirality::Cns,
    }
}
fn bind(v: &Identifier, k: K) -> ContextBinding {
    ContextBinding { var: v.clone(), chi: chi(k), ty: tyname(k) }
}
fn ctx(vs: &[(Identifier, K)]) -> TypingContext {
    TypingContext { bindings: vs.iter().map(|(v, k)| bind(v, *k)).collect() }
}

pub const TUP_FIELDS: [K; 5] = [K::Int, K::List, K::Int, K::Int, K::List];

pub fn types() -> Vec<TypeDeclaration> {
    let p = |n: &str, k: K| (id(n, 0), k);
    vec![
        TypeDeclaration {
            name: id("List", 0),
            xtors: vec![XtorSig { name: id("Nil", 0), args: ctx(&[]) }, XtorSig { name: id("Cons", 0), args: ctx(&[p("hd", K::Int), p("tl", K::List)]) }],
        },
        TypeDeclaration {
            name: id("Tup", 0),
            xtors: vec![XtorSig { name: id("Tup5", 0), args: ctx(&[p("a", K::Int), p("b", K::List), p("c", K::Int), p("d", K::Int), p("e", K::List)]) }],
        },
        TypeDeclaration { name: id("Cont", 0), xtors: vec![XtorSig { name: id("Ret", 0), args: ctx(&[p("r", K::Int)]) }] },
        TypeDeclaration {
            name: id("Two", 0),
            xtors: vec![XtorSig { name: id("M1", 0), args: ctx(&[p("x", K::Int)]) }, XtorSig { name: id("M2", 0), args: ctx(&[p("x", K::Int), p("y", K::Int)]) }],
        },
        TypeDeclaration { name: id("Rec", 0), xtors: vec![XtorSig { name: id("Go", 0), args: ctx(&[p("x", K::Int), p("me", K::Rec)]) }] },
    ]
}

pub struct Gen {
    pub rng: Rng,
    pub next_id: usize,
    /// parameter kinds of the top-level definitions (index 0 = main)
    pub defs: Vec<Vec<K>>,
    pub max_env: usize,
    pub cur_def: usize,
    pub no_rec: usize,
}

type Env = Vec<(Identifier, K)>;

impl Gen {
    fn fresh(&mut self, name: &str) -> Identifier {
        self.next_id += 1;
        id(name, self.next_id)
    }
    fn pick(&mut self, env: &Env, k: K) -> Option<Identifier> {
        let c: Vec<&(Identifier, K)> = env.iter().filter(|(_, kk)| *kk == k).collect();
        if c.is_empty() {
            None
        } else {
            Some(c[self.rng.below(c.len() as u64) as usize].0.clone())
        }
    }
    /// make sure a variable of kind k exists: returns (prefix statements builder, variable)
    fn ensure(&mut self, env: &mut Env, k: K, pre: &mut Vec<Box<dyn FnOnce(Statement) -> Statement>>) -> Identifier {
        if let Some(v) = self.pick(env, k) {
            if self.rng.below(4) != 0 {
                return v;
            }
        }
        match k {
            K::Int => {
                let v = self.fresh("n");
                let lit = match self.rng.below(6) {
                    0 => 0,
                    1 => -1,
                    2 => (self.rng.next() % 100) as i64,
                    3 => self.rng.next() as i64,
                    4 => 1i64 << (31 + self.rng.below(3)),
                    _ => -((self.rng.next() % 1000) as i64),
                };
                let vv = v.clone();
                pre.push(Box::new(move |next| Statement::Literal(Literal { lit, var: vv, next: Rc::new(next), free_vars_next: None })));
                env.push((v.clone(), K::Int));
                v
            }
            K::List => {
                let v = self.fresh("l");
                let vv = v.clone();
                if self.rng.below(2) == 0 || env.len() > self.max_env {
                    pre.push(Box::new(move |next| Statement::Let(Let { var: vv, ty: tyname(K::List), tag: id("Nil", 0), args: ctx(&[]), next: Rc::new(next), free_vars_next: None })));
                } else {
                    let h = self.ensure(env, K::Int, pre);
                    let t = self.ensure(env, K::List, pre);
                    let args = ctx(&[(h, K::Int), (t, K::List)]);
                    pre.push(Box::new(move |next| Statement::Let(Let { var: vv, ty: tyname(K::List), tag: id("Cons", 0), args, next: Rc::new(next), free_vars_next: None })));
                }
                env.push((v.clone(), K::List));
                v
            }
            K::Tup => {
                let v = self.fresh("t");
                let vv = v.clone();
                let mut a = vec![];
                for fk in TUP_FIELDS {
                    a.push((self.ensure(env, fk, pre), fk));
                }
                let args = ctx(&a);
                pre.push(Box::new(move |next| Statement::Let(Let { var: vv, ty: tyname(K::Tup), tag: id("Tup5", 0), args, next: Rc::new(next), free_vars_next: None })));
                env.push((v.clone(), K::Tup));
                v
            }
            K::Cont => {
                let v = self.fresh("k");
                let vv = v.clone();
                let r = self.fresh("r");
                let mut benv = env.clone();
                benv.push((r.clone(), K::Int));
                let body = self.stmt(benv, 1);
                let clauses = vec![Clause { xtor: id("Ret", 0), context: ctx(&[(r, K::Int)]), body: Rc::new(body) }];
                pre.push(Box::new(move |next| Statement::Create(Create { var: vv, ty: tyname(K::Cont), context: None, clauses, free_vars_clauses: None, next: Rc::new(next), free_vars_next: None })));
                env.push((v.clone(), K::Cont));
                v
            }
            K::Rec => {
                let v = self.fresh("w");
                let vv = v.clone();
                let x = self.fresh("x");
                let me = self.fresh("me");
                let mut benv = env.clone();
                benv.push((x.clone(), K::Int));
                benv.push((me.clone(), K::Rec));
                // the body must not invoke `me` again (termination): generate it without Rec terminals
                self.no_rec += 1;
                let body = self.stmt(benv, 1);
                self.no_rec -= 1;
                let clauses = vec![Clause { xtor: id("Go", 0), context: ctx(&[(x, K::Int), (me, K::Rec)]), body: Rc::new(body) }];
                pre.push(Box::new(move |next| Statement::Create(Create { var: vv, ty: tyname(K::Rec), context: None, clauses, free_vars_clauses: None, next: Rc::new(next), free_vars_next: None })));
                env.push((v.clone(), K::Rec));
                v
            }
            K::Two => {
                let v = self.fresh("o");
                let vv = v.clone();
                let x1 = self.fresh("x");
                let mut e1 = env.clone();
                e1.push((x1.clone(), K::Int));
                let b1 = self.stmt(e1, 1);
                let x2 = self.fresh("x");
                let y2 = self.fresh("y");
                let mut e2 = env.clone();
                e2.push((x2.clone(), K::Int));
                e2.push((y2.clone(), K::Int));
                let b2 = self.stmt(e2, 1);
                let clauses = vec![
                    Clause { xtor: id("M1", 0), context: ctx(&[(x1, K::Int)]), body: Rc::new(b1) },
                    Clause { xtor: id("M2", 0), context: ctx(&[(x2, K::Int), (y2, K::Int)]), body: Rc::new(b2) },
                ];
                pre.push(Box::new(move |next| Statement::Create(Create { var: vv, ty: tyname(K::Two), context: None, clauses, free_vars_clauses: None, next: Rc::new(next), free_vars_next: None })));
                env.push((v.clone(), K::Two));
                v
            }
        }
    }

    fn wrap(pre: Vec<Box<dyn FnOnce(Statement) -> Statement>>, mut s: Statement) -> Statement {
        for f in pre.into_iter().rev() {
            s = f(s);
        }
        s
    }

    fn terminal(&mut self, mut env: Env) -> Statement {
        let mut pre = vec![];
        let s = match self.rng.below(5) {
            0 if env.iter().any(|(_, k)| *k == K::Cont) => {
                let k = self.pick(&env, K::Cont).unwrap();
                let a = self.ensure(&mut env, K::Int, &mut pre);
                Statement::Invoke(Invoke { var: k, tag: id("Ret", 0), ty: tyname(K::Cont), args: ctx(&[(a, K::Int)]) })
            }
            1 if env.iter().any(|(_, k)| *k == K::Two) => {
                let o = self.pick(&env, K::Two).unwrap();
                let a = self.ensure(&mut env, K::Int, &mut pre);
                if self.rng.below(2) == 0 {
                    Statement::Invoke(Invoke { var: o, tag: id("M1", 0), ty: tyname(K::Two), args: ctx(&[(a, K::Int)]) })
                } else {
                    let b = self.ensure(&mut env, K::Int, &mut pre);
                    Statement::Invoke(Invoke { var: o, tag: id("M2", 0), ty: tyname(K::Two), args: ctx(&[(a, K::Int), (b, K::Int)]) })
                }
            }
            2 if self.no_rec == 0 && env.len() <= self.max_env => {
                let w = self.ensure(&mut env, K::Rec, &mut pre);
                let a = self.ensure(&mut env, K::Int, &mut pre);
                // self-application with probability 1/2
                let m = if self.rng.below(2) == 0 { w.clone() } else { self.ensure(&mut env, K::Rec, &mut pre) };
                Statement::Invoke(Invoke { var: w, tag: id("Go", 0), ty: tyname(K::Rec), args: ctx(&[(a, K::Int), (m, K::Rec)]) })
            }
            _ => {
                let a = self.ensure(&mut env, K::Int, &mut pre);
                Statement::Exit(Exit { var: a })
            }
        };
        Self::wrap(pre, s)
    }

    pub fn stmt(&mut self, mut env: Env, depth: usize) -> Statement {
        if depth == 0 || env.len() > self.max_env {
            return self.terminal(env);
        }
        let mut pre: Vec<Box<dyn FnOnce(Statement) -> Statement>> = vec![];
        let choice = self.rng.below(14);
        match choice {
            0 | 1 => {
                // arithmetic
                let a = self.ensure(&mut env, K::Int, &mut pre);
                let op = match self.rng.below(5) {
                    0 => BinOp::Sum,
                    1 => BinOp::Sub,
                    2 => BinOp::Prod,
                    3 => BinOp::Div,
                    _ => BinOp::Rem,
                };
                let b = if matches!(op, BinOp::Div | BinOp::Rem) {
                    // a fresh non-zero divisor (and not -1, so that MIN / -1 cannot occur)
                    let d = self.fresh("d");
                    let lit = [2i64, 3, 7, -3, 10, 1 << 33][self.rng.below(6) as usize];
                    let dd = d.clone();
                    pre.push(Box::new(move |next| Statement::Literal(Literal { lit, var: dd, next: Rc::new(next), free_vars_next: None })));
                    env.push((d.clone(), K::Int));
                    d
                } else {
                    self.ensure(&mut env, K::Int, &mut pre)
                };
                let v = self.fresh("z");
                env.push((v.clone(), K::Int));
                let next = self.stmt(env, depth - 1);
                Self::wrap(pre, Statement::Op(Op { fst: a, op, snd: b, var: v, next: Rc::new(next), free_vars_next: None }))
            }
            2 => {
                let a = self.ensure(&mut env, K::Int, &mut pre);
                let next = self.stmt(env, depth - 1);
                Self::wrap(pre, Statement::PrintI64(PrintI64 { newline: self.rng.below(2) == 0, var: a, next: Rc::new(next), free_vars_next: None }))
            }
            3 | 4 => {
                let a = self.ensure(&mut env, K::Int, &mut pre);
                let snd = if self.rng.below(2) == 0 { None } else { Some(self.ensure(&mut env, K::Int, &mut pre)) };
                let sort = [IfSort::Equal, IfSort::NotEqual, IfSort::Less, IfSort::LessOrEqual, IfSort::Greater, IfSort::GreaterOrEqual][self.rng.below(6) as usize];
                let t = self.stmt(env.clone(), depth - 1);
                let e = self.stmt(env, depth - 1);
                Self::wrap(pre, Statement::IfC(IfC { sort, fst: a, snd, thenc: Rc::new(t), elsec: Rc::new(e) }))
            }
            5 | 6 => {
                // switch on a list
                let l = self.ensure(&mut env, K::List, &mut pre);
                let h = self.fresh("h");
                let t = self.fresh("t");
                let mut e2 = env.clone();
                e2.push((h.clone(), K::Int));
                e2.push((t.clone(), K::List));
                let b1 = self.stmt(env.clone(), depth - 1);
                let b2 = self.stmt(e2, depth - 1);
                let clauses = vec![
                    Clause { xtor: id("Nil", 0), context: ctx(&[]), body: Rc::new(b1) },
                    Clause { xtor: id("Cons", 0), context: ctx(&[(h, K::Int), (t, K::List)]), body: Rc::new(b2) },
                ];
                Self::wrap(pre, Statement::Switch(Switch { var: l, ty: tyname(K::List), clauses, free_vars_clauses: None }))
            }
            7 => {
                // switch on a five-field tuple (single clause: no jump table, multi-block load)
                let t = self.ensure(&mut env, K::Tup, &mut pre);
                let mut e2 = env.clone();
                let mut bs = vec![];
                for fk in TUP_FIELDS {
                    let v = self.fresh("f");
                    e2.push((v.clone(), fk));
                    bs.push((v, fk));
                }
                let b = self.stmt(e2, depth - 1);
                let clauses = vec![Clause { xtor: id("Tup5", 0), context: ctx(&bs), body: Rc::new(b) }];
                Self::wrap(pre, Statement::Switch(Switch { var: t, ty: tyname(K::Tup), clauses, free_vars_clauses: None }))
            }
            8 => {
                let _ = self.ensure(&mut env, K::List, &mut pre);
                let next = self.stmt(env, depth - 1);
                Self::wrap(pre, next)
            }
            9 => {
                let _ = self.ensure(&mut env, K::Cont, &mut pre);
                let next = self.stmt(env, depth - 1);
                Self::wrap(pre, next)
            }
            10 => {
                let _ = self.ensure(&mut env, K::Two, &mut pre);
                let next = self.stmt(env, depth - 1);
                Self::wrap(pre, next)
            }
            11 => {
                let _ = self.ensure(&mut env, K::Tup, &mut pre);
                let next = self.stmt(env, depth - 1);
                Self::wrap(pre, next)
            }
            12 if self.cur_def + 1 < self.defs.len() => {
                // call a later definition (no recursion)
                let target = self.cur_def + 1 + self.rng.below((self.defs.len() - self.cur_def - 1) as u64) as usize;
                let kinds = self.defs[target].clone();
                let mut a = vec![];
                for k in kinds {
                    a.push((self.ensure(&mut env, k, &mut pre), k));
                }
                Self::wrap(pre, Statement::Call(Call { label: id(&format!("f{target}"), 0), args: ctx(&a) }))
            }
            _ => self.terminal(env),
        }
    }
}

impl Gen {
    pub fn program(seed: u64, depth: usize, max_env: usize) -> (Prog, Vec<i64>) {
        let mut g = Gen { rng: Rng(seed | 1), next_id: 0, defs: vec![], max_env, cur_def: 0, no_rec: 0 };
        let nparams = g.rng.below(4) as usize;
        g.defs.push(vec![K::Int; nparams]);
        let ndefs = 1 + g.rng.below(3) as usize;
        for _ in 1..ndefs {
            let n = g.rng.below(4) as usize;
            let ks = (0..n).map(|_| [K::Int, K::Int, K::List, K::Cont][g.rng.below(4) as usize]).collect();
            g.defs.push(ks);
        }
        let mut defs = vec![];
        for d in 0..ndefs {
            g.cur_def = d;
            let params: Env = g.defs[d].clone().into_iter().map(|k| (g.fresh("p"), k)).collect();
            let body = g.stmt(params.clone(), depth);
            defs.push(Def { name: id(&if d == 0 { "main".to_string() } else { format!("f{d}") }, 0), context: ctx(&params), body });
        }
        let args: Vec<i64> = (0..nparams).map(|_| match g.rng.below(4) { 0 => 0, 1 => -5, 2 => g.rng.next() as i64, _ => (g.rng.next() % 50) as i64 }).collect();
        (Prog { defs, types: types(), max_id: g.next_id + 1 }, args)
    }
}

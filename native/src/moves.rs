//! C11 (bounded): every explicit substitution is compiled as one simultaneous assignment with the
//! right reference-count updates.  The REAL `Substitute::code_statement` (transpose,
//! code_weakening_contraction, code_exchange, parallel_moves, spanning_forest, backend mov /
//! store_temporary / restore_temporary, erase_block, share_block_n) is run on every map from a new
//! window of m variables to an old window of n variables, every kind assignment, every offset of the
//! window across the register/spill boundary, and the emitted code is executed on the machine model
//! with pairwise distinct tokens.
use crate::machine::*;
use crate::report::*;
use axcut::syntax::statements::{Call, Substitute};
use axcut::syntax::{Chirality, ContextBinding, Identifier, Statement, Ty, TypingContext};
use axcut2backend::code::Instructions;
use axcut2backend::config::{Config, TemporaryNumber};
use axcut2backend::memory::Memory;
use axcut2backend::parallel_moves::ParallelMoves;
use axcut2backend::statements::CodeStatement;
use axcut2backend::utils::Utils;
use std::collections::{BTreeSet, HashMap};
use std::rc::Rc;

pub const HEAP_BASE: u64 = 0x10_0000;

fn ident(name: &str, id: usize) -> Identifier {
    Identifier { name: name.to_string(), id }
}

fn binding(name: &str, id: usize, ext: bool) -> ContextBinding {
    if ext {
        ContextBinding { var: ident(name, id), chi: Chirality::Ext, ty: Ty::I64 }
    } else {
        ContextBinding { var: ident(name, id), chi: if id % 2 == 0 { Chirality::Prd } else { Chirality::Cns }, ty: Ty::Decl(ident("T", 0)) }
    }
}

#[derive(Clone, Debug)]
pub struct Case {
    /// number of identity-mapped prefix variables before the window
    pub offset: usize,
    /// kinds of the old window variables (true = Ext)
    pub kinds: Vec<bool>,
    /// for every new window variable the index of its source in the old window
    pub map: Vec<usize>,
    /// null pointer in old window variable (mask)
    pub nulls: u32,
    /// initial reference counts zero (mask): erase pushes the block on the deferred list
    pub zero_rc: u32,
}

pub fn run_case<B, M, I>(case: &Case, seed: u64) -> Result<(), Failure>
where
    M: Machine,
    B: Config<M::Temp, I>
        + Instructions<M::Code, M::Temp, I>
        + Memory<M::Code, M::Temp>
        + ParallelMoves<M::Code, M::Temp>
        + Utils<M::Temp>,
{
    let n = case.kinds.len();
    let m = case.map.len();
    let w = case.offset;
    // old context: prefix p0..p(w-1) (alternating kinds), then window o0..o(n-1)
    let mut old = Vec::new();
    for i in 0..w {
        old.push(binding("p", 100 + i, i % 2 == 0));
    }
    for i in 0..n {
        old.push(binding("o", 200 + i, case.kinds[i]));
    }
    let old_ctx = TypingContext { bindings: old.clone() };
    // rearrange: prefix identity (fresh names, as the linearizer produces), then the window map
    let mut rearrange = Vec::new();
    for i in 0..w {
        rearrange.push((binding("q", 300 + i, i % 2 == 0), ident("p", 100 + i)));
    }
    for (j, &src) in case.map.iter().enumerate() {
        rearrange.push((binding("n", 400 + j, case.kinds[src]), ident("o", 200 + src)));
    }
    let new_ctx = TypingContext { bindings: rearrange.iter().map(|(b, _)| b.clone()).collect() };
    let stmt = Substitute {
        rearrange: rearrange.clone(),
        next: Rc::new(Statement::Call(Call { label: ident("stop", 0), args: TypingContext { bindings: vec![] } })),
    };
    let mut code: Vec<M::Code> = Vec::new();
    {
        // `fresh_label` increments an unsynchronised `static mut` counter: code generation is serialised
        let _g = crate::GEN_LOCK.lock().unwrap_or_else(|e| e.into_inner());
        stmt.code_statement::<B, _, _, _>(&[], old_ctx.clone(), &mut code);
    }

    // initial state
    let mut st = M::new(seed);
    let mut rng = Rng(seed.wrapping_mul(77).wrapping_add(13) | 1);
    let mut tok = |rng: &mut Rng| 0xA000_0000_0000_0000u64 | (rng.next() >> 8);
    let heap = B::heap();
    let free = B::free();
    let old_free = HEAP_BASE + 64 * 1000;
    st.set(heap, HEAP_BASE + 64 * 999);
    st.set(free, old_free);
    st.mem_mut().insert(old_free, 0);
    // source values
    let mut src_fst = Vec::new(); // Option<u64> pointer for non-Ext
    let mut src_snd = Vec::new();
    let mut rc0: HashMap<u64, u64> = HashMap::new();
    for (i, b) in old.iter().enumerate() {
        let ext = b.chi == Chirality::Ext;
        let tf = B::variable_temporary(TemporaryNumber::Fst, &old_ctx, b.var.id);
        let ts = B::variable_temporary(TemporaryNumber::Snd, &old_ctx, b.var.id);
        let vs = tok(&mut rng);
        st.set(ts, vs);
        src_snd.push(vs);
        if ext {
            st.set(tf, tok(&mut rng));
            src_fst.push(None);
        } else {
            let widx = i as isize - w as isize;
            let null = widx >= 0 && (case.nulls >> widx) & 1 == 1;
            let ptr = if null { 0 } else { HEAP_BASE + 64 * i as u64 };
            st.set(tf, ptr);
            if !null {
                let zero = widx >= 0 && (case.zero_rc >> widx) & 1 == 1;
                let rc = if zero { 0 } else { 2 + (i as u64 % 3) };
                st.mem_mut().insert(ptr, rc);
                rc0.insert(ptr, rc);
            }
            src_fst.push(Some(ptr));
        }
    }
    let before = st.clone();
    let exit = st.exec(&code);
    let fail = |what: String, st: &M| Failure {
        what,
        input: format!("{case:?}"),
        instructions: M::render(&code),
        detail: format!("exit={exit:?} sp={:#x}", st.sp()),
    };
    if exit != Exit::Label("stop_".to_string()) {
        return Err(fail(format!("emitted code did not reach the continuation: {exit:?}"), &st));
    }
    // targets
    let mut touched_regs: BTreeSet<usize> = M::scratch_regs().into_iter().collect();
    let mut touched_mem: BTreeSet<u64> = BTreeSet::new();
    let note = |t: M::Temp, tr: &mut BTreeSet<usize>, tm: &mut BTreeSet<u64>, st: &M| {
        if let Some(r) = M::temp_as_reg(t) {
            tr.insert(r);
        }
        if let Some(k) = M::temp_as_spill(t) {
            tm.insert(st.sp().wrapping_add(2048 - 8 * (k as u64 + 1)));
        }
    };
    // old and new temporaries may change (dead after the substitution unless rebound)
    for b in old.iter() {
        for num in [TemporaryNumber::Fst, TemporaryNumber::Snd] {
            note(B::variable_temporary(num, &old_ctx, b.var.id), &mut touched_regs, &mut touched_mem, &st);
        }
    }
    for b in new_ctx.bindings.iter() {
        for num in [TemporaryNumber::Fst, TemporaryNumber::Snd] {
            note(B::variable_temporary(num, &new_ctx, b.var.id), &mut touched_regs, &mut touched_mem, &st);
        }
    }
    // reserved scratch spill slot 0
    touched_mem.insert(st.sp().wrapping_add(2048 - 8));
    // 1. every new variable holds what its source held
    for (j, (nb, oldid)) in rearrange.iter().enumerate() {
        let si = old.iter().position(|b| b.var.id == oldid.id).unwrap();
        let ts = B::variable_temporary(TemporaryNumber::Snd, &new_ctx, nb.var.id);
        if st.get(ts) != src_snd[si] {
            return Err(fail(
                format!("new variable #{j} ({}_{}) second temporary {:?} holds {:#x}, its source {}_{} held {:#x}", nb.var.name, nb.var.id, ts, st.get(ts), oldid.name, oldid.id, src_snd[si]),
                &st,
            ));
        }
        if let Some(p) = src_fst[si] {
            let tf = B::variable_temporary(TemporaryNumber::Fst, &new_ctx, nb.var.id);
            if st.get(tf) != p {
                return Err(fail(
                    format!("new variable #{j} ({}_{}) first temporary {:?} holds {:#x}, its source held pointer {:#x}", nb.var.name, nb.var.id, tf, st.get(tf), p),
                    &st,
                ));
            }
        }
    }
    // 2. reference counts
    let mut expected_free_chain: BTreeSet<u64> = BTreeSet::new();
    for (i, b) in old.iter().enumerate() {
        if let Some(p) = src_fst[i] {
            if p == 0 {
                continue;
            }
            let k = rearrange.iter().filter(|(_, o)| o.id == b.var.id).count() as u64;
            let rc = rc0[&p];
            if k == 0 && rc == 0 {
                expected_free_chain.insert(p);
                touched_mem.insert(p);
            } else {
                let exp = if k == 0 { rc - 1 } else { rc + (k - 1) };
                let got = *st.mem().get(&p).unwrap_or(&0xdead);
                if got != exp {
                    return Err(fail(
                        format!("reference count of the object of {}_{} ({} targets): expected {exp}, found {got} (was {rc})", b.var.name, b.var.id, k),
                        &st,
                    ));
                }
                touched_mem.insert(p);
            }
        }
    }
    // deferred free list: FREE -> erased blocks (any order) -> old FREE
    let mut cur = st.get(free);
    let mut seen = BTreeSet::new();
    while cur != old_free {
        if !expected_free_chain.contains(&cur) || !seen.insert(cur) {
            return Err(fail(format!("deferred free list is corrupt: unexpected element {cur:#x}; expected the released blocks {expected_free_chain:x?} then {old_free:#x}"), &st));
        }
        cur = *st.mem().get(&cur).unwrap_or(&0xdead);
    }
    if seen != expected_free_chain {
        return Err(fail(format!("dropped objects with count 0 must be released exactly once: released {seen:x?}, expected {expected_free_chain:x?}"), &st));
    }
    if let Some(r) = M::temp_as_reg(free) {
        touched_regs.insert(r);
    }
    // 3. nothing else changes
    for r in 0..M::NREGS {
        if !touched_regs.contains(&r) && st.reg(r) != before.reg(r) {
            return Err(fail(format!("register {r} is outside both environments and not scratch, but changed from {:#x} to {:#x}", before.reg(r), st.reg(r)), &st));
        }
    }
    if st.sp() != before.sp() {
        return Err(fail("stack pointer changed".into(), &st));
    }
    if st.get(heap) != before.get(heap) {
        return Err(fail("heap register changed".into(), &st));
    }
    for (a, v) in st.mem().iter() {
        if !touched_mem.contains(a) && before.mem().get(a) != Some(v) {
            return Err(fail(format!("memory word {a:#x} is outside both environments, but changed to {v:#x}"), &st));
        }
    }
    Ok(())
}

/// enumerate all cases with m <= mmax, n <= nmax; offsets as given
pub fn enumerate(mmax: usize, nmax: usize, offsets: &[usize], with_rc_variants: bool) -> Vec<Case> {
    let mut out = Vec::new();
    for &off in offsets {
        for n in 0..=nmax {
            for m in 0..=mmax {
                if n == 0 && m > 0 {
                    continue;
                }
                let maps = (n as u64).pow(m as u32).max(1);
                for kinds_mask in 0..(1u32 << n) {
                    let kinds: Vec<bool> = (0..n).map(|i| (kinds_mask >> i) & 1 == 1).collect();
                    for code in 0..maps {
                        let mut c = code;
                        let map: Vec<usize> = (0..m)
                            .map(|_| {
                                let d = (c % n.max(1) as u64) as usize;
                                c /= n.max(1) as u64;
                                d
                            })
                            .collect();
                        out.push(Case { offset: off, kinds: kinds.clone(), map: map.clone(), nulls: 0, zero_rc: 0 });
                        if with_rc_variants && n <= 3 {
                            out.push(Case { offset: off, kinds: kinds.clone(), map: map.clone(), nulls: 0, zero_rc: (1 << n) - 1 });
                            out.push(Case { offset: off, kinds: kinds.clone(), map, nulls: 0b101, zero_rc: 0b010 });
                        }
                    }
                }
            }
        }
    }
    out
}

pub fn random_case(rng: &mut Rng, max_vars: usize, max_offset: usize) -> Case {
    let n = 1 + rng.below(max_vars as u64) as usize;
    let m = rng.below(max_vars as u64 + 1) as usize;
    Case {
        offset: rng.below(max_offset as u64 + 1) as usize,
        kinds: (0..n).map(|_| rng.below(2) == 0).collect(),
        map: (0..m).map(|_| rng.below(n as u64) as usize).collect(),
        nulls: (rng.next() & 0xff) as u32 & (rng.next() & 0xff) as u32,
        zero_rc: (rng.next() & 0xff) as u32,
    }
}

//! Result records printed as JSON (hand-rolled: no serde dependency needed offline).
#[derive(Debug, Clone)]
pub struct Failure {
    pub what: String,
    pub input: String,
    pub instructions: Vec<String>,
    pub detail: String,
}

pub fn esc(s: &str) -> String {
    let mut o = String::new();
    for c in s.chars() {
        match c {
            '"' => o.push_str("\\\""),
            '\\' => o.push_str("\\\\"),
            '\n' => o.push_str("\\n"),
            '\t' => o.push_str("\\t"),
            c if (c as u32) < 0x20 => o.push_str(&format!("\\u{:04x}", c as u32)),
            c => o.push(c),
        }
    }
    o
}

impl Failure {
    pub fn json(&self, obligation: &str, backend: &str) -> String {
        format!(
            "{{\"obligation\":\"{}\",\"backend\":\"{}\",\"what\":\"{}\",\"input\":\"{}\",\"detail\":\"{}\",\"instructions\":[{}]}}",
            esc(obligation),
            esc(backend),
            esc(&self.what),
            esc(&self.input),
            esc(&self.detail),
            self.instructions.iter().map(|i| format!("\"{}\"", esc(i))).collect::<Vec<_>>().join(",")
        )
    }
}

#[derive(Default)]
pub struct Summary {
    pub check: String,
    pub bound: String,
    pub cases: u64,
    pub nontrivial: u64,
    pub exhaustive: bool,
    pub violations: Vec<String>,
    pub samples: Vec<String>,
}

impl Summary {
    pub fn json(&self) -> String {
        format!(
            "{{\"check\":\"{}\",\"bound\":\"{}\",\"cases\":{},\"nontrivial\":{},\"exhaustive\":{},\"violations\":[{}],\"samples\":[{}]}}",
            esc(&self.check),
            esc(&self.bound),
            self.cases,
            self.nontrivial,
            self.exhaustive,
            self.violations.join(","),
            self.samples.iter().map(|s| format!("\"{}\"", esc(s))).collect::<Vec<_>>().join(",")
        )
    }
}

//! Executable machine models used by the bounded native contract checks and the counterexample
//! replayer. They follow the same instruction tables as the Verus ISA specifications in /verif/spec
//! (T1), but are PC-based so that the label/branch patterns of the memory code can be executed.
use std::collections::HashMap;
use std::fmt::Debug;
use std::hash::Hash;

#[derive(Debug, Clone, PartialEq, Eq)]
pub enum Exit {
    /// ran past the last instruction
    FellOff,
    /// jumped to a label that is not defined in the fragment (e.g. `cleanup`, a callee)
    Label(String),
    /// indirect jump to this address
    Reg(u64),
    /// returned (RET)
    Ret,
    Fault(String),
    StepLimit,
}

/// Deterministic pseudo-random tokens (xorshift*), so every run is reproducible from VERIF_SEED.
#[derive(Clone)]
pub struct Rng(pub u64);
impl Rng {
    pub fn next(&mut self) -> u64 {
        let mut x = self.0;
        x ^= x >> 12;
        x ^= x << 25;
        x ^= x >> 27;
        self.0 = x;
        x.wrapping_mul(0x2545F4914F6CDD1D)
    }
    pub fn below(&mut self, n: u64) -> u64 {
        self.next() % n
    }
}

pub trait Machine: Clone {
    type Code: Clone + Debug;
    type Temp: Copy + Eq + Ord + Hash + Debug;
    const NAME: &'static str;
    /// number of general registers in the backend's numbering
    const NREGS: usize;
    fn new(seed: u64) -> Self;
    fn exec(&mut self, code: &[Self::Code]) -> Exit;
    fn exec_limit(&mut self, code: &[Self::Code], limit: usize) -> Exit;
    fn get(&self, t: Self::Temp) -> u64;
    fn set(&mut self, t: Self::Temp, v: u64);
    fn reg(&self, n: usize) -> u64;
    fn set_reg(&mut self, n: usize, v: u64);
    fn sp(&self) -> u64;
    fn set_sp(&mut self, v: u64);
    fn mem(&self) -> &HashMap<u64, u64>;
    fn mem_mut(&mut self) -> &mut HashMap<u64, u64>;
    fn calls(&self) -> &Vec<(String, u64)>;
    fn temp_reg(n: usize) -> Self::Temp;
    fn temp_spill(k: usize) -> Option<Self::Temp>;
    /// register number if the temporary is a register
    fn temp_as_reg(t: Self::Temp) -> Option<usize>;
    fn temp_as_spill(t: Self::Temp) -> Option<usize>;
    /// registers the backend may clobber as scratch
    fn set_zero_region(&mut self, lo: u64, hi: u64);
    fn scratch_regs() -> Vec<usize>;
    fn render(code: &[Self::Code]) -> Vec<String> {
        code.iter().map(|c| format!("{c:?}")).collect()
    }
}

pub fn wdiv(a: u64, b: u64) -> Option<u64> {
    let (a, b) = (a as i64, b as i64);
    if b == 0 || (a == i64::MIN && b == -1) { None } else { Some((a / b) as u64) }
}
pub fn wrem(a: u64, b: u64) -> Option<u64> {
    let (a, b) = (a as i64, b as i64);
    if b == 0 || (a == i64::MIN && b == -1) { None } else { Some((a % b) as u64) }
}

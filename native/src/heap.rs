//! C09 / C10 (bounded): heap consistency and footprint, checked by executing the code the REAL
//! backends emit for random sequences of allocation (`Memory::store`), destructive / sharing load
//! (`Memory::load`) and substitution (duplicate / drop / permute through the real
//! `Substitute::code_statement`, hence `share_block_n` / `erase_block`) on the machine models, and
//! auditing the machine memory after every operation:
//!   * every block below the allocation frontier is in exactly one of: reachable from the live
//!     variables, on the reusable free list, on the deferred free list, beneath a deferred block;
//!   * no block occurs twice on a list (double release), no list leaves the heap;
//!   * the count stored in every reachable / beneath-deferred block equals the number of references
//!     to it (live variables + first slots of reachable, deferred and beneath-deferred blocks) - 1;
//!   * every live variable holds the value an abstract model of the operations predicts (deep compare);
//!   * the frontier never exceeds the peak number of reachable blocks + 3 blocks (C10).
use crate::machine::*;
use crate::report::*;
use axcut::syntax::statements::{Call, Substitute};
use axcut::syntax::{Chirality, ContextBinding, Identifier, Statement, Ty, TypingContext};
use axcut2backend::code::Instructions;
use axcut2backend::config::{Config, TemporaryNumber};
use axcut2backend::memory::Memory;
use axcut2backend::parallel_moves::ParallelMoves;
use axcut2backend::statements::CodeStatement;
use axcut2backend::utils::Utils;
use std::collections::{BTreeMap, BTreeSet, HashMap};
use std::rc::Rc;

pub const HEAP_BASE: u64 = 0x10_0000;
pub const BLOCK: u64 = 64;

/// abstract values
#[derive(Clone, Debug, PartialEq)]
pub enum V {
    Int(u64),
    /// object: second-slot token (tag / code pointer) and fields
    Obj(u64, Rc<Vec<V>>),
}

#[derive(Clone, Debug)]
pub enum Op {
    /// push an integer variable
    Lit,
    /// allocate an object from the last k variables (k may be 0)
    Alloc(usize),
    /// load the fields of the last variable (must be an object)
    Load,
    /// new environment := selection of old variables (indices into the old environment)
    Subst(Vec<usize>),
}

fn ident(name: &str, id: usize) -> Identifier {
    Identifier { name: name.to_string(), id }
}

struct Sim<M: Machine> {
    st: M,
    vars: Vec<(ContextBinding, V)>,
    next_id: usize,
    rng: Rng,
    peak_reachable: u64,
    code_log: Vec<String>,
}

fn binding(id: usize, ext: bool) -> ContextBinding {
    ContextBinding {
        var: ident("v", id),
        chi: if ext { Chirality::Ext } else if id % 2 == 0 { Chirality::Prd } else { Chirality::Cns }, // heap objects of both polarities (data values and closures/continuations)
        ty: if ext { Ty::I64 } else { Ty::Decl(ident("T", 0)) },
    }
}

fn ctx_of(vars: &[(ContextBinding, V)]) -> TypingContext {
    TypingContext { bindings: vars.iter().map(|(b, _)| b.clone()).collect() }
}

impl<M: Machine> Sim<M> {
    fn fresh(&mut self, ext: bool) -> ContextBinding {
        self.next_id += 1;
        binding(self.next_id, ext)
    }
    fn token(&mut self) -> u64 {
        0xB000_0000_0000_0000u64 | (self.rng.next() >> 8)
    }
}

/// blocks of an object with n fields, head first: returns for every block the list of (field index, variable index)
/// and whether field 2 holds a link
pub fn layout(n: usize) -> Vec<(Vec<(usize, usize)>, bool)> {
    // mirrors the documented layout: the last block holds the last <= 3 variables (right-aligned),
    // every other block holds <= 2 variables (right-aligned in fields 0..1) and the link in field 2
    let mut blocks: Vec<(Vec<(usize, usize)>, bool)> = vec![];
    let mut rest = n;
    let mut first = true;
    while rest > 0 || first {
        let cap = if first { 3 } else { 2 };
        let take = rest.min(cap);
        let mut fields = vec![];
        for j in 0..take {
            // right-aligned: the last variable of this chunk goes to field cap-1
            fields.push((cap - take + j, rest - take + j));
        }
        blocks.push((fields, !first));
        rest -= take;
        first = false;
        if rest == 0 {
            break;
        }
    }
    blocks.reverse();
    blocks
}

pub fn run_sequence<B, M, I>(ops: &[Op], seed: u64, cap: usize) -> Result<u64, Failure>
where
    M: Machine,
    B: Config<M::Temp, I>
        + Instructions<M::Code, M::Temp, I>
        + Memory<M::Code, M::Temp>
        + ParallelMoves<M::Code, M::Temp>
        + Utils<M::Temp>,
{
    let mut sim: Sim<M> = Sim { st: M::new(seed), vars: vec![], next_id: 0, rng: Rng(seed.wrapping_mul(991) | 1), peak_reachable: 0, code_log: vec![] };
    // zero-filled heap, HEAP at its base, FREE one block further (as `setup` establishes)
    sim.st.set_zero_region(HEAP_BASE, HEAP_BASE + BLOCK * 1_000_000);
    sim.st.set(B::heap(), HEAP_BASE);
    sim.st.set(B::free(), HEAP_BASE + BLOCK);
    let mut audits = 0u64;
    for (step, op) in ops.iter().enumerate() {
        let mut code: Vec<M::Code> = vec![];
        let before_vars = sim.vars.clone();
        match op {
            Op::Lit => {
                if sim.vars.len() + 1 > cap {
                    continue;
                }
                let b = sim.fresh(true);
                let t = sim.token();
                sim.vars.push((b.clone(), V::Int(t)));
                let ctx = ctx_of(&sim.vars);
                let tmp = B::variable_temporary(TemporaryNumber::Snd, &ctx, b.var.id);
                sim.st.set(tmp, t);
            }
            Op::Alloc(k) => {
                let k = (*k).min(sim.vars.len());
                let split = sim.vars.len() - k;
                if split + 1 > cap {
                    // the new variable would exceed the documented capacity of the backend (explicit assertion, allowed)
                    continue;
                }
                let args: Vec<(ContextBinding, V)> = sim.vars.split_off(split);
                let remaining = ctx_of(&sim.vars);
                let to_store = TypingContext { bindings: args.iter().map(|(b, _)| b.clone()).collect() };
                {
                    let _g = crate::GEN_LOCK.lock().unwrap_or_else(|e| e.into_inner());
                    B::store(to_store, &remaining, &mut code);
                }
                let b = sim.fresh(false);
                let tag = sim.token();
                sim.vars.push((b.clone(), V::Obj(tag, Rc::new(args.into_iter().map(|(_, v)| v).collect()))));
                let ex = sim.st.exec(&code);
                if ex != Exit::FellOff {
                    return Err(fail::<M>(&sim, ops, step, format!("store: execution ended with {ex:?}"), &code));
                }
                let ctx = ctx_of(&sim.vars);
                let tmp = B::variable_temporary(TemporaryNumber::Snd, &ctx, b.var.id);
                sim.st.set(tmp, tag);
            }
            Op::Load => {
                let Some((_, V::Obj(_, fields))) = sim.vars.last().cloned() else { continue };
                if sim.vars.len() - 1 + fields.len() + 1 > cap {
                    continue;
                }
                sim.vars.pop();
                let existing = ctx_of(&sim.vars);
                let mut to_load = vec![];
                for f in fields.iter() {
                    let b = sim.fresh(matches!(f, V::Int(_)));
                    to_load.push((b, f.clone()));
                }
                {
                    let _g = crate::GEN_LOCK.lock().unwrap_or_else(|e| e.into_inner());
                    B::load(TypingContext { bindings: to_load.iter().map(|(b, _)| b.clone()).collect() }, &existing, &mut code);
                }
                sim.vars.extend(to_load);
                let ex = sim.st.exec(&code);
                if ex != Exit::FellOff {
                    return Err(fail::<M>(&sim, ops, step, format!("load: execution ended with {ex:?}"), &code));
                }
            }
            Op::Subst(sel) => {
                if sim.vars.is_empty() || sel.len() > cap {
                    continue;
                }
                let old_ctx = ctx_of(&sim.vars);
                let mut rearrange = vec![];
                let mut new_vars = vec![];
                for &i in sel {
                    let i = i % sim.vars.len();
                    let (ob, ov) = sim.vars[i].clone();
                    let nb = sim.fresh(ob.chi == Chirality::Ext);
                    rearrange.push((nb.clone(), ob.var.clone()));
                    new_vars.push((nb, ov));
                }
                let stmt = Substitute { rearrange, next: Rc::new(Statement::Call(Call { label: ident("stop", 0), args: TypingContext { bindings: vec![] } })) };
                {
                    let _g = crate::GEN_LOCK.lock().unwrap_or_else(|e| e.into_inner());
                    stmt.code_statement::<B, _, _, _>(&[], old_ctx, &mut code);
                }
                sim.vars = new_vars;
                let ex = sim.st.exec(&code);
                if ex != Exit::Label("stop_".to_string()) {
                    return Err(fail::<M>(&sim, ops, step, format!("substitute: execution ended with {ex:?}"), &code));
                }
            }
        }
        sim.code_log = M::render(&code);
        let _ = before_vars;
        if let Err(e) = audit::<B, M, I>(&mut sim) {
            return Err(fail::<M>(&sim, ops, step, e, &code));
        }
        audits += 1;
    }
    Ok(audits)
}

fn fail<M: Machine>(sim: &Sim<M>, ops: &[Op], step: usize, what: String, code: &[M::Code]) -> Failure {
    Failure {
        what: format!("after operation #{step} ({:?}): {what}", ops[step]),
        input: format!("{:?}", &ops[..=step]),
        instructions: M::render(code),
        detail: format!("live variables: {}", sim.vars.len()),
    }
}

fn word<M: Machine>(st: &M, a: u64) -> u64 {
    *st.mem().get(&a).unwrap_or(&0)
}

fn audit<B, M, I>(sim: &mut Sim<M>) -> Result<(), String>
where
    M: Machine,
    B: Config<M::Temp, I> + Utils<M::Temp>,
{
    let st = &sim.st;
    let ctx = ctx_of(&sim.vars);
    let heap = st.get(B::heap());
    let free = st.get(B::free());
    let in_heap = |p: u64| p >= HEAP_BASE && (p - HEAP_BASE) % BLOCK == 0 && p < HEAP_BASE + BLOCK * 100_000;
    // deferred list: ends at the frontier block (never used, link 0)
    let mut deferred = vec![];
    let mut cur = free;
    loop {
        if !in_heap(cur) {
            return Err(format!("deferred free list leaves the heap: {cur:#x}"));
        }
        if deferred.contains(&cur) {
            return Err(format!("deferred free list contains block {cur:#x} twice"));
        }
        deferred.push(cur);
        let nx = word(st, cur);
        if nx == 0 {
            break;
        }
        cur = nx;
        if deferred.len() > 50_000 {
            return Err("deferred free list does not terminate".into());
        }
    }
    let frontier = *deferred.last().unwrap();
    deferred.pop();
    // reusable list
    let mut reusable = vec![];
    let mut cur = heap;
    loop {
        if !in_heap(cur) {
            return Err(format!("reusable free list leaves the heap: {cur:#x}"));
        }
        if reusable.contains(&cur) {
            return Err(format!("reusable free list contains block {cur:#x} twice"));
        }
        reusable.push(cur);
        let nx = word(st, cur);
        if nx == 0 {
            break;
        }
        cur = nx;
        if reusable.len() > 50_000 {
            return Err("reusable free list does not terminate".into());
        }
    }
    // the frontier block may be the reserved HEAP block right after setup (HEAP = base, FREE = base + 64)
    let below = |p: u64| p < frontier;
    for &b in reusable.iter().chain(deferred.iter()) {
        if !below(b) {
            return Err(format!("free-list block {b:#x} lies at or above the allocation frontier {frontier:#x}"));
        }
    }
    // references: live variables
    let mut refs: HashMap<u64, u64> = HashMap::new();
    let mut roots = vec![];
    for (b, _) in sim.vars.iter() {
        if b.chi != Chirality::Ext {
            let tf = B::variable_temporary(TemporaryNumber::Fst, &ctx, b.var.id);
            let p = st.get(tf);
            if p != 0 {
                if !in_heap(p) || !below(p) {
                    return Err(format!("live variable {}_{} holds {p:#x}, which is not a block below the frontier {frontier:#x}", b.var.name, b.var.id));
                }
                *refs.entry(p).or_insert(0) += 1;
                roots.push(p);
            }
        }
    }
    let traverse = |start: &[u64], refs: &mut HashMap<u64, u64>, stop: &BTreeSet<u64>| -> Result<BTreeSet<u64>, String> {
        let mut seen: BTreeSet<u64> = BTreeSet::new();
        let mut stack: Vec<u64> = start.to_vec();
        while let Some(b) = stack.pop() {
            if stop.contains(&b) || !seen.insert(b) {
                continue;
            }
            for f in 0..3u64 {
                let c = word(st, b + 16 + 16 * f);
                if c != 0 {
                    if !in_heap(c) || !below(c) {
                        return Err(format!("first slot of field {f} of block {b:#x} holds {c:#x}, which is not a block below the frontier"));
                    }
                    *refs.entry(c).or_insert(0) += 1;
                    stack.push(c);
                }
            }
        }
        Ok(seen)
    };
    let empty = BTreeSet::new();
    let reachable = traverse(&roots, &mut refs, &empty)?;
    // children of deferred blocks (not already counted through the reachable part)
    let beneath_all = traverse(&deferred, &mut refs, &reachable)?;
    let deferred_set: BTreeSet<u64> = deferred.iter().cloned().collect();
    let reusable_set: BTreeSet<u64> = reusable.iter().cloned().collect();
    // partition
    for &b in &reusable_set {
        if reachable.contains(&b) || beneath_all.contains(&b) {
            return Err(format!("block {b:#x} is on the reusable free list but still referenced (use after release)"));
        }
    }
    for &b in &deferred_set {
        if reachable.contains(&b) {
            return Err(format!("block {b:#x} is on the deferred free list but still reachable from live variables"));
        }
    }
    let mut addr = HEAP_BASE;
    while addr < frontier {
        let known = reachable.contains(&addr) || beneath_all.contains(&addr) || reusable_set.contains(&addr);
        if !known {
            return Err(format!("block {addr:#x} below the frontier {frontier:#x} is neither reachable, nor on a free list, nor beneath a deferred block: it is lost (leak)"));
        }
        addr += BLOCK;
    }
    // reference counts
    for &b in reachable.iter().chain(beneath_all.iter()) {
        if deferred_set.contains(&b) {
            continue; // word 0 of a deferred block is its list link
        }
        let want = refs.get(&b).cloned().unwrap_or(0);
        let got = word(st, b);
        if want == 0 || got != want - 1 {
            return Err(format!("block {b:#x}: stored count {got}, but {want} references exist (expected count {})", want as i64 - 1));
        }
    }
    // deep value compare
    for (b, v) in sim.vars.iter() {
        let ts = B::variable_temporary(TemporaryNumber::Snd, &ctx, b.var.id);
        match v {
            V::Int(t) => {
                if st.get(ts) != *t {
                    return Err(format!("integer variable {}_{} holds {:#x}, expected {t:#x}", b.var.name, b.var.id, st.get(ts)));
                }
            }
            V::Obj(tag, fields) => {
                if st.get(ts) != *tag {
                    return Err(format!("second temporary of object variable {}_{} holds {:#x}, expected {tag:#x}", b.var.name, b.var.id, st.get(ts)));
                }
                let tf = B::variable_temporary(TemporaryNumber::Fst, &ctx, b.var.id);
                deep::<M>(st, st.get(tf), fields, 0).map_err(|e| format!("object variable {}_{}: {e}", b.var.name, b.var.id))?;
            }
        }
    }
    // footprint (C10)
    let nreach = reachable.len() as u64;
    if nreach > sim.peak_reachable {
        sim.peak_reachable = nreach;
    }
    let frontier_blocks = (frontier - HEAP_BASE) / BLOCK;
    if frontier_blocks > sim.peak_reachable + 3 {
        return Err(format!("allocation frontier at block {frontier_blocks} although at most {} blocks were ever reachable at the same time: fresh memory was taken while a free list was not empty", sim.peak_reachable));
    }
    Ok(())
}

fn deep<M: Machine>(st: &M, ptr: u64, fields: &Rc<Vec<V>>, depth: usize) -> Result<(), String> {
    if depth > 64 {
        return Ok(());
    }
    let n = fields.len();
    if n == 0 {
        if ptr != 0 {
            return Err(format!("object without fields must be the null pointer, found {ptr:#x}"));
        }
        return Ok(());
    }
    if ptr == 0 {
        return Err("object with fields is the null pointer".into());
    }
    let lay = layout(n);
    let mut blk = ptr;
    for (bi, (slots, _has_link_in)) in lay.iter().enumerate() {
        for &(field, vi) in slots {
            let fst = word(st, blk + 16 + 16 * field as u64);
            let snd = word(st, blk + 16 + 16 * field as u64 + 8);
            match &fields[vi] {
                V::Int(t) => {
                    if snd != *t || fst != 0 {
                        return Err(format!("field #{vi} (block {blk:#x}, slot {field}) holds ({fst:#x}, {snd:#x}), expected integer (0, {t:#x})"));
                    }
                }
                V::Obj(tag, fs) => {
                    if snd != *tag {
                        return Err(format!("field #{vi} (block {blk:#x}, slot {field}) second slot {snd:#x}, expected {tag:#x}"));
                    }
                    deep::<M>(st, fst, fs, depth + 1)?;
                }
            }
        }
        if bi + 1 < lay.len() {
            let link = word(st, blk + 16 + 16 * 2);
            if link == 0 {
                return Err(format!("block {blk:#x} of a {n}-field object lacks the link to its next block"));
            }
            blk = link;
        }
    }
    Ok(())
}

pub fn random_ops(rng: &mut Rng, len: usize, max_vars: usize) -> Vec<Op> {
    // simulate the environment size and the kinds so that the sequence is well-formed
    let mut kinds: Vec<bool> = vec![]; // true = integer
    let mut ops = vec![];
    for _ in 0..len {
        let n = kinds.len();
        let choice = rng.below(10);
        if n == 0 || (choice < 2 && n < max_vars) {
            kinds.push(true);
            ops.push(Op::Lit);
        } else if choice < 5 && n < max_vars {
            let k = (rng.below(9) as usize).min(n);
            kinds.truncate(n - k);
            kinds.push(false);
            ops.push(Op::Alloc(k));
        } else if choice < 7 && !*kinds.last().unwrap() {
            // load: we do not track field kinds here; the simulator skips the op if the last variable is no object
            ops.push(Op::Load);
            // conservative bookkeeping: unknown number of fields; cap the environment by regenerating through a subst
            kinds.pop();
            for _ in 0..3 {
                kinds.push(true);
            }
        } else {
            let m = (rng.below(max_vars as u64 + 1) as usize).min(max_vars);
            let sel: Vec<usize> = (0..m).map(|_| rng.below(n as u64) as usize).collect();
            ops.push(Op::Subst(sel.clone()));
            kinds = sel.iter().map(|_| true).collect();
        }
    }
    ops
}

/// Directed scenario: an object with `k` fields (every `ptr_every`-th field a pointer to a small object) is
/// created in an (almost) empty environment, `n_left` other variables (integers and small objects) are created
/// to its right, the object is moved behind them - duplicated first if `share` - and loaded there; the second
/// copy, if any, is moved to the end and loaded as well (release path). So the object is consumed in an
/// environment of a different shape than the one it was created in, with its block pointer at position
/// `n_left` (register or spill slot), on both the share and the release path.
pub fn directed_ops(n_left: usize, k: usize, share: bool, ptr_every: usize) -> Vec<Op> {
    let mut ops = vec![];
    // fields
    for j in 0..k {
        ops.push(Op::Lit);
        if ptr_every > 0 && j % ptr_every == 0 {
            ops.push(Op::Alloc(1)); // a one-field object wrapping the literal: a pointer field
        }
    }
    ops.push(Op::Alloc(k)); // environment: [O]
    for j in 0..n_left {
        ops.push(Op::Lit);
        if ptr_every > 0 && j % ptr_every == 1 {
            ops.push(Op::Alloc(1));
        }
    }
    // environment: [O, f1 .. fn]  ->  [f1 .. fn, O (, O)]
    let mut sel: Vec<usize> = (1..=n_left).collect();
    sel.push(0);
    if share {
        sel.push(0);
    }
    ops.push(Op::Subst(sel));
    ops.push(Op::Load); // loads the last copy: environment [f1 .. fn, (O,) x1 .. xk]
    if share {
        // bring the remaining copy to the end and load it too
        let total = n_left + 1 + k;
        let mut sel: Vec<usize> = (0..n_left).collect();
        sel.extend(n_left + 1..total);
        sel.push(n_left);
        ops.push(Op::Subst(sel));
        ops.push(Op::Load);
    }
    // finally drop everything
    ops.push(Op::Subst(vec![]));
    ops
}

pub type _Unused = BTreeMap<u64, u64>;

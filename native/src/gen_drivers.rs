//! gen_drivers <outdir>: writes the C driver the REAL `driver::generate_c_driver(n, None | Some(8))` produces for
//! n = 0..=7 parameters and the io runtime (`driver::generate_io_runtime`) into <outdir>.
fn main() {
    let out = std::env::args().nth(1).expect("usage: gen_drivers <outdir>");
    let _ = std::fs::remove_dir_all(&out);
    std::fs::create_dir_all(&out).unwrap();
    std::env::set_current_dir(&out).unwrap();
    for n in 0..=7usize {
        let p = driver::generate_c_driver(n, None);
        println!("{}", std::fs::canonicalize(&p).unwrap().display());
        // the same with an explicit heap size (the `--heap-size` path of the driver generator)
        let p = driver::generate_c_driver(n, Some(8));
        println!("{}", std::fs::canonicalize(&p).unwrap().display());
    }
}

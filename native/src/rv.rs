//! RISC-V (RV64, 64-bit loads/stores as the property says) interpreter for `axcut2rv64::code::Code`.
use crate::machine::*;
use crate::x86::label_addr;
use axcut2rv64::code::Code;
use axcut2rv64::config::Register;
use std::collections::HashMap;

#[derive(Clone)]
pub struct Rv {
    pub regs: [u64; 32],
    pub mem: HashMap<u64, u64>,
    pub calls: Vec<(String, u64)>,
    pub rng: Rng,
    pub junk: u64,
    /// addresses in [zero.0, zero.1) read as 0 when never written (the zero-filled heap)
    pub zero: (u64, u64),
}

impl Rv {
    fn rd(&self, r: Register) -> u64 {
        if r.0 == 0 { 0 } else { self.regs[r.0] }
    }
    fn wr(&mut self, r: Register, v: u64) {
        if r.0 != 0 {
            self.regs[r.0] = v
        }
    }
    fn ld(&self, a: u64) -> u64 {
        match self.mem.get(&a) {
            Some(v) => *v,
            None => if a >= self.zero.0 && a < self.zero.1 { 0 } else { a.wrapping_mul(0x9E3779B97F4A7C15) ^ self.junk },
        }
    }
}

impl Machine for Rv {
    type Code = Code;
    type Temp = Register;
    const NAME: &'static str = "rv64";
    const NREGS: usize = 32;

    fn new(seed: u64) -> Self {
        let mut rng = Rng(seed | 1);
        let mut regs = [0u64; 32];
        for r in regs.iter_mut().skip(1) {
            *r = rng.next();
        }
        let junk = rng.next();
        Rv { regs, mem: HashMap::new(), calls: vec![], rng, junk, zero: (0, 0) }
    }

    fn exec(&mut self, code: &[Code]) -> Exit {
        self.exec_limit(code, 100_000)
    }

    fn exec_limit(&mut self, code: &[Code], limit: usize) -> Exit {
        let mut labels = HashMap::new();
        let mut addr_of: Vec<u64> = Vec::with_capacity(code.len());
        let mut index_of: HashMap<u64, usize> = HashMap::new();
        let mut a = crate::x86::CODE_BASE;
        for (i, c) in code.iter().enumerate() {
            addr_of.push(a);
            match c {
                Code::LAB(l) => {
                    labels.insert(l.clone(), i);
                }
                Code::COMMENT(_) => {}
                _ => {
                    index_of.insert(a, i);
                    a += 4;
                }
            }
        }
        let label_address = |l: &str| -> u64 {
            match labels.get(l) {
                Some(&i) => addr_of[i],
                None => label_addr(l),
            }
        };
        let mut pc = 0usize;
        let mut steps = 0;
        while pc < code.len() {
            steps += 1;
            if steps > limit {
                return Exit::StepLimit;
            }
            let c = &code[pc];
            pc += 1;
            use Code::*;
            macro_rules! jump {
                ($l:expr) => {
                    match labels.get($l) {
                        Some(&i) => pc = i,
                        None => return Exit::Label($l.clone()),
                    }
                };
            }
            macro_rules! bcond {
                ($x:expr, $y:expr, $l:expr, $f:expr) => {{
                    let f: fn(i64, i64) -> bool = $f;
                    if f(self.rd(*$x) as i64, self.rd(*$y) as i64) {
                        jump!($l)
                    }
                }};
            }
            match c {
                ADD(d, a, b) => {
                    let v = self.rd(*a).wrapping_add(self.rd(*b));
                    self.wr(*d, v)
                }
                ADDI(d, a, i) => {
                    let v = self.rd(*a).wrapping_add(*i as u64);
                    self.wr(*d, v)
                }
                SUB(d, a, b) => {
                    let v = self.rd(*a).wrapping_sub(self.rd(*b));
                    self.wr(*d, v)
                }
                MUL(d, a, b) => {
                    let v = self.rd(*a).wrapping_mul(self.rd(*b));
                    self.wr(*d, v)
                }
                DIV(d, a, b) => {
                    let (x, y) = (self.rd(*a) as i64, self.rd(*b) as i64);
                    let v = if y == 0 { -1 } else { x.wrapping_div(y) };
                    self.wr(*d, v as u64)
                }
                REM(d, a, b) => {
                    let (x, y) = (self.rd(*a) as i64, self.rd(*b) as i64);
                    let v = if y == 0 { x } else { x.wrapping_rem(y) };
                    self.wr(*d, v as u64)
                }
                JAL(d, l) => {
                    if d.0 != 0 {
                        return Exit::Fault("JAL with link register is not modelled".into());
                    }
                    jump!(l)
                }
                JALR(d, a, i) => {
                    if d.0 != 0 {
                        return Exit::Fault("JALR with link register is not modelled".into());
                    }
                    let t = self.rd(*a).wrapping_add(*i as u64);
                    match index_of.get(&t) {
                        Some(&ix) => pc = ix,
                        None => return Exit::Reg(t),
                    }
                }
                LA(d, l) => self.wr(*d, label_address(l)),
                LI(d, i) => self.wr(*d, *i as u64),
                MV(d, a) => {
                    let v = self.rd(*a);
                    self.wr(*d, v)
                }
                LW(d, b, o) => {
                    let v = self.ld(self.rd(*b).wrapping_add(*o as u64));
                    self.wr(*d, v)
                }
                SW(r, b, o) => {
                    let a = self.rd(*b).wrapping_add(*o as u64);
                    let v = self.rd(*r);
                    self.mem.insert(a, v);
                }
                BEQ(x, y, l) => bcond!(x, y, l, |a, b| a == b),
                BNE(x, y, l) => bcond!(x, y, l, |a, b| a != b),
                BLT(x, y, l) => bcond!(x, y, l, |a, b| a < b),
                BLE(x, y, l) => bcond!(x, y, l, |a, b| a <= b),
                BGT(x, y, l) => bcond!(x, y, l, |a, b| a > b),
                BGE(x, y, l) => bcond!(x, y, l, |a, b| a >= b),
                LAB(_) | COMMENT(_) => {}
            }
        }
        Exit::FellOff
    }

    fn get(&self, t: Register) -> u64 {
        self.rd(t)
    }
    fn set(&mut self, t: Register, v: u64) {
        self.wr(t, v)
    }
    fn reg(&self, n: usize) -> u64 {
        self.regs[n]
    }
    fn set_reg(&mut self, n: usize, v: u64) {
        if n != 0 {
            self.regs[n] = v
        }
    }
    fn sp(&self) -> u64 {
        0
    }
    fn set_sp(&mut self, _v: u64) {}
    fn mem(&self) -> &HashMap<u64, u64> {
        &self.mem
    }
    fn mem_mut(&mut self) -> &mut HashMap<u64, u64> {
        &mut self.mem
    }
    fn calls(&self) -> &Vec<(String, u64)> {
        &self.calls
    }
    fn temp_reg(n: usize) -> Register {
        Register(n)
    }
    fn temp_spill(_k: usize) -> Option<Register> {
        None
    }
    fn temp_as_reg(t: Register) -> Option<usize> {
        Some(t.0)
    }
    fn temp_as_spill(_t: Register) -> Option<usize> {
        None
    }
    fn set_zero_region(&mut self, lo: u64, hi: u64) {
        self.zero = (lo, hi);
    }
    fn scratch_regs() -> Vec<usize> {
        vec![1]
    }
}

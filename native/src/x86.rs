//! x86-64 interpreter for `axcut2x86_64::code::Code`.
use crate::machine::*;
use axcut2x86_64::code::Code;
use axcut2x86_64::config::{Register, Spill, Temporary};
use std::collections::HashMap;

pub const SPILL_SPACE: u64 = 2048;
pub const CODE_BASE: u64 = 0x40_0000;
/// size attributed to every instruction = size of `jmp near rel32`
pub const STRIDE: u64 = 5;

#[derive(Clone)]
pub struct X86 {
    pub regs: [u64; 16],
    pub mem: HashMap<u64, u64>,
    pub fl: Option<(u64, u64)>,
    pub calls: Vec<(String, u64)>,
    pub rng: Rng,
    /// uninitialised memory reads return a junk value derived from the address
    pub junk: u64,
    /// addresses in [zero.0, zero.1) read as 0 when never written (the zero-filled heap)
    pub zero: (u64, u64),
}

impl X86 {
    fn rd(&self, r: Register) -> u64 {
        self.regs[r.0]
    }
    fn ld(&self, a: u64) -> u64 {
        match self.mem.get(&a) {
            Some(v) => *v,
            None => if a >= self.zero.0 && a < self.zero.1 { 0 } else { a.wrapping_mul(0x9E3779B97F4A7C15) ^ self.junk },
        }
    }
    fn ea(&self, b: Register, off: i64) -> u64 {
        self.regs[b.0].wrapping_add(off as u64)
    }
    fn idiv(&mut self, d: u64) -> Result<(), String> {
        let a = self.regs[4];
        let hi = self.regs[5];
        let dividend = ((hi as i64 as i128) << 64) | (a as u128 as i128);
        if d == 0 {
            return Err("#DE: division by zero".into());
        }
        let dv = d as i64 as i128;
        let q = dividend / dv;
        let r = dividend % dv;
        if q > i64::MAX as i128 || q < i64::MIN as i128 {
            return Err("#DE: quotient overflow".into());
        }
        self.regs[4] = q as i64 as u64;
        self.regs[5] = r as i64 as u64;
        self.fl = None;
        Ok(())
    }
}

fn cond(c: &Code, fl: Option<(u64, u64)>) -> Option<Result<(bool, &String), String>> {
    let (l, f): (&String, fn(i64, i64) -> bool) = match c {
        Code::JEL(l) => (l, |a, b| a == b),
        Code::JNEL(l) => (l, |a, b| a != b),
        Code::JLL(l) => (l, |a, b| a < b),
        Code::JLEL(l) => (l, |a, b| a <= b),
        Code::JGL(l) => (l, |a, b| a > b),
        Code::JGEL(l) => (l, |a, b| a >= b),
        _ => return None,
    };
    Some(match fl {
        None => Err("conditional jump with undefined flags".to_string()),
        Some((a, b)) => Ok((f(a as i64, b as i64), l)),
    })
}

impl Machine for X86 {
    type Code = Code;
    type Temp = Temporary;
    const NAME: &'static str = "x86_64";
    const NREGS: usize = 16;

    fn new(seed: u64) -> Self {
        let mut rng = Rng(seed | 1);
        let mut regs = [0u64; 16];
        for r in regs.iter_mut() {
            *r = rng.next();
        }
        // a plausible, 16-byte aligned + 8 stack pointer as inside the routine body
        regs[0] = 0x7fff_0000_1008;
        let junk = rng.next();
        X86 { regs, mem: HashMap::new(), fl: None, calls: vec![], rng, junk, zero: (0, 0) }
    }

    fn exec(&mut self, code: &[Code]) -> Exit {
        self.exec_limit(code, 100_000)
    }

    fn exec_limit(&mut self, code: &[Code], limit: usize) -> Exit {
        let mut labels = HashMap::new();
        // address model: every real instruction occupies STRIDE bytes (the size of the fixed jump used in
        // jump tables), labels / comments / directives occupy none; label addresses resolve into the fragment
        let mut addr_of: Vec<u64> = Vec::with_capacity(code.len());
        let mut index_of: HashMap<u64, usize> = HashMap::new();
        let mut a = CODE_BASE;
        for (i, c) in code.iter().enumerate() {
            addr_of.push(a);
            match c {
                Code::LAB(l) => {
                    labels.insert(l.clone(), i);
                }
                Code::NOEXECSTACK | Code::TEXT | Code::GLOBAL(_) | Code::EXTERN(_) | Code::COMMENT(_) => {}
                _ => {
                    index_of.insert(a, i);
                    a += STRIDE;
                }
            }
        }
        let label_address = |l: &str| -> u64 {
            match labels.get(l) {
                Some(&i) => addr_of[i],
                None => label_addr(l),
            }
        };
        let mut pc = 0usize;
        let mut steps = 0;
        while pc < code.len() {
            steps += 1;
            if steps > limit {
                return Exit::StepLimit;
            }
            let c = &code[pc];
            pc += 1;
            use Code::*;
            match c {
                ADD(a, b) => {
                    self.regs[a.0] = self.rd(*a).wrapping_add(self.rd(*b));
                    self.fl = None;
                }
                ADDRM(r, b, o) => {
                    self.regs[r.0] = self.rd(*r).wrapping_add(self.ld(self.ea(*b, o.val)));
                    self.fl = None;
                }
                ADDMR(b, o, r) => {
                    let a = self.ea(*b, o.val);
                    let v = self.ld(a).wrapping_add(self.rd(*r));
                    self.mem.insert(a, v);
                    self.fl = None;
                }
                ADDI(r, i) => {
                    self.regs[r.0] = self.rd(*r).wrapping_add(i.val as u64);
                    self.fl = None;
                }
                ADDIM(b, o, i) => {
                    let a = self.ea(*b, o.val);
                    let v = self.ld(a).wrapping_add(i.val as u64);
                    self.mem.insert(a, v);
                    self.fl = None;
                }
                SUB(a, b) => {
                    self.regs[a.0] = self.rd(*a).wrapping_sub(self.rd(*b));
                    self.fl = None;
                }
                SUBRM(r, b, o) => {
                    self.regs[r.0] = self.rd(*r).wrapping_sub(self.ld(self.ea(*b, o.val)));
                    self.fl = None;
                }
                SUBMR(b, o, r) => {
                    let a = self.ea(*b, o.val);
                    let v = self.ld(a).wrapping_sub(self.rd(*r));
                    self.mem.insert(a, v);
                    self.fl = None;
                }
                SUBI(r, i) => {
                    self.regs[r.0] = self.rd(*r).wrapping_sub(i.val as u64);
                    self.fl = None;
                }
                IMUL(a, b) => {
                    self.regs[a.0] = self.rd(*a).wrapping_mul(self.rd(*b));
                    self.fl = None;
                }
                IMULRM(r, b, o) => {
                    self.regs[r.0] = self.rd(*r).wrapping_mul(self.ld(self.ea(*b, o.val)));
                    self.fl = None;
                }
                IMULMR(..) => return Exit::Fault("imul m64, r64 is not an x86-64 instruction".into()),
                IDIV(r) => {
                    let d = self.rd(*r);
                    if let Err(e) = self.idiv(d) {
                        return Exit::Fault(e);
                    }
                }
                IDIVM(b, o) => {
                    let d = self.ld(self.ea(*b, o.val));
                    if let Err(e) = self.idiv(d) {
                        return Exit::Fault(e);
                    }
                }
                CQO => {
                    self.regs[5] = if (self.regs[4] as i64) < 0 { u64::MAX } else { 0 };
                }
                JMP(r) => match index_of.get(&self.rd(*r)) {
                    Some(&i) => pc = i,
                    None => return Exit::Reg(self.rd(*r)),
                },
                JMPL(l) | JMPLN(l) => match labels.get(l) {
                    Some(&i) => pc = i,
                    None => return Exit::Label(l.clone()),
                },
                LEAL(r, l) => {
                    self.regs[r.0] = label_address(l);
                }
                MOV(a, b) => self.regs[a.0] = self.rd(*b),
                MOVS(r, b, o) => {
                    let a = self.ea(*b, o.val);
                    let v = self.rd(*r);
                    self.mem.insert(a, v);
                }
                MOVL(r, b, o) => self.regs[r.0] = self.ld(self.ea(*b, o.val)),
                MOVI(r, i) => self.regs[r.0] = i.val as u64,
                MOVIM(b, o, i) => {
                    if i.val < i32::MIN as i64 || i.val > i32::MAX as i64 {
                        return Exit::Fault(format!("mov qword [m], imm: immediate {} does not fit 32 bits", i.val));
                    }
                    let a = self.ea(*b, o.val);
                    self.mem.insert(a, i.val as u64);
                }
                CMP(a, b) => self.fl = Some((self.rd(*a), self.rd(*b))),
                CMPRM(r, b, o) => self.fl = Some((self.rd(*r), self.ld(self.ea(*b, o.val)))),
                CMPMR(b, o, r) => self.fl = Some((self.ld(self.ea(*b, o.val)), self.rd(*r))),
                CMPI(r, i) => self.fl = Some((self.rd(*r), i.val as u64)),
                CMPIM(b, o, i) => self.fl = Some((self.ld(self.ea(*b, o.val)), i.val as u64)),
                JEL(_) | JNEL(_) | JLL(_) | JLEL(_) | JGL(_) | JGEL(_) => match cond(c, self.fl).unwrap() {
                    Err(e) => return Exit::Fault(e),
                    Ok((taken, l)) => {
                        if taken {
                            match labels.get(l) {
                                Some(&i) => pc = i,
                                None => return Exit::Label(l.clone()),
                            }
                        }
                    }
                },
                PUSH(r) => {
                    let v = self.rd(*r);
                    self.regs[0] = self.regs[0].wrapping_sub(8);
                    self.mem.insert(self.regs[0], v);
                }
                POP(r) => {
                    let v = self.ld(self.regs[0]);
                    self.regs[0] = self.regs[0].wrapping_add(8);
                    self.regs[r.0] = v;
                }
                CALL(f) => {
                    if self.regs[0] % 16 != 0 {
                        return Exit::Fault(format!("call {f} with rsp = {:#x} not 16-byte aligned", self.regs[0]));
                    }
                    self.calls.push((f.clone(), self.regs[7]));
                    // System V: caller-saved registers, flags and everything below rsp are dead
                    for r in [1usize, 4, 5, 6, 7, 8, 9, 10, 11] {
                        self.regs[r] = self.rng.next();
                    }
                    self.fl = None;
                    let sp = self.regs[0];
                    let mut rng = self.rng.clone();
                    for (a, v) in self.mem.iter_mut() {
                        if *a < sp && *a >= sp.wrapping_sub(1 << 24) {
                            *v = rng.next();
                        }
                    }
                    self.rng = rng;
                    self.junk = self.rng.next();
                }
                RET => return Exit::Ret,
                LAB(_) | NOEXECSTACK | TEXT | GLOBAL(_) | EXTERN(_) | COMMENT(_) => {}
            }
        }
        Exit::FellOff
    }

    fn get(&self, t: Temporary) -> u64 {
        match t {
            Temporary::Register(r) => self.regs[r.0],
            Temporary::Spill(k) => self.ld(slot_addr(self.regs[0], k.0)),
        }
    }
    fn set(&mut self, t: Temporary, v: u64) {
        match t {
            Temporary::Register(r) => self.regs[r.0] = v,
            Temporary::Spill(k) => {
                self.mem.insert(slot_addr(self.regs[0], k.0), v);
            }
        }
    }
    fn reg(&self, n: usize) -> u64 {
        self.regs[n]
    }
    fn set_reg(&mut self, n: usize, v: u64) {
        self.regs[n] = v
    }
    fn sp(&self) -> u64 {
        self.regs[0]
    }
    fn set_sp(&mut self, v: u64) {
        self.regs[0] = v
    }
    fn mem(&self) -> &HashMap<u64, u64> {
        &self.mem
    }
    fn mem_mut(&mut self) -> &mut HashMap<u64, u64> {
        &mut self.mem
    }
    fn calls(&self) -> &Vec<(String, u64)> {
        &self.calls
    }
    fn temp_reg(n: usize) -> Temporary {
        Temporary::Register(Register(n))
    }
    fn temp_spill(k: usize) -> Option<Temporary> {
        Some(Temporary::Spill(Spill(k)))
    }
    fn temp_as_reg(t: Temporary) -> Option<usize> {
        match t {
            Temporary::Register(r) => Some(r.0),
            _ => None,
        }
    }
    fn temp_as_spill(t: Temporary) -> Option<usize> {
        match t {
            Temporary::Spill(k) => Some(k.0),
            _ => None,
        }
    }
    fn set_zero_region(&mut self, lo: u64, hi: u64) {
        self.zero = (lo, hi);
    }
    fn scratch_regs() -> Vec<usize> {
        vec![1]
    }
}

pub fn slot_addr(sp: u64, k: usize) -> u64 {
    sp.wrapping_add(SPILL_SPACE - 8 * (k as u64 + 1))
}

pub fn label_addr(l: &str) -> u64 {
    // deterministic fake address of a label
    let mut h: u64 = 0xcbf29ce484222325;
    for b in l.bytes() {
        h ^= b as u64;
        h = h.wrapping_mul(0x100000001b3);
    }
    0x40_0000 + (h % 0x10_0000) * 16
}

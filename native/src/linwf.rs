//! Executable form of the postcondition of linearization (property C05): walking the linearized program
//! with the ordered environment exactly as the backends do, every statement must find the environment
//! it expects: call: the callee's parameters; invoke: arguments then closure; let: rest then
//! arguments; switch: rest then scrutinee; create: rest then captured environment; positions agree in
//! kind and type; substitutions read bound variables and bind pairwise distinct targets; operands of
//! arithmetic, comparison and print are present (and stay available).
use axcut::syntax::{Chirality, ContextBinding, Prog, Statement, TypingContext};

fn show(env: &[ContextBinding]) -> String {
    format!("[{}]", env.iter().map(|b| format!("{}_{}", b.var.name, b.var.id)).collect::<Vec<_>>().join(", "))
}

fn same_shape(a: &ContextBinding, b: &ContextBinding) -> bool {
    a.chi == b.chi && a.ty == b.ty
}

fn distinct(env: &[ContextBinding], what: &str) -> Result<(), String> {
    for (i, a) in env.iter().enumerate() {
        if env[..i].iter().any(|b| b.var.id == a.var.id) {
            return Err(format!("{what}: variable {}_{} occurs twice in environment {}", a.var.name, a.var.id, show(env)));
        }
    }
    Ok(())
}

fn has(env: &[ContextBinding], id: usize) -> bool {
    env.iter().any(|b| b.var.id == id)
}

pub fn check_prog(prog: &Prog) -> Result<(), String> {
    for d in &prog.defs {
        check(prog, &d.body, d.context.bindings.clone()).map_err(|e| format!("in definition {}: {e}", d.name.name))?;
    }
    Ok(())
}

fn ends_with(env: &[ContextBinding], tail: &[ContextBinding]) -> bool {
    env.len() >= tail.len() && env[env.len() - tail.len()..].iter().zip(tail).all(|(a, b)| a.var.id == b.var.id && same_shape(a, b))
}

fn check(prog: &Prog, s: &Statement, env: Vec<ContextBinding>) -> Result<(), String> {
    distinct(&env, "environment")?;
    match s {
        Statement::Substitute(sub) => {
            let mut ne = vec![];
            for (nb, old) in &sub.rearrange {
                let Some(ob) = env.iter().find(|b| b.var.id == old.id) else {
                    return Err(format!("substitute: source {}_{} is not in environment {}", old.name, old.id, show(&env)));
                };
                if !same_shape(nb, ob) {
                    return Err(format!("substitute: target {}_{} differs in kind/type from its source {}_{}", nb.var.name, nb.var.id, old.name, old.id));
                }
                ne.push(nb.clone());
            }
            distinct(&ne, "target of substitute")?;
            check(prog, &sub.next, ne)
        }
        Statement::Call(c) => {
            let def = prog.defs.iter().find(|d| d.name == c.label).ok_or("call of an unknown definition")?;
            if def.context.bindings.len() != env.len() || !def.context.bindings.iter().zip(&env).all(|(a, b)| same_shape(a, b)) {
                return Err(format!("call {}: environment {} is not exactly the callee's parameter list (kinds/types by position)", c.label.name, show(&env)));
            }
            Ok(())
        }
        Statement::Let(l) => {
            let args = &l.args.bindings;
            if !ends_with(&env, args) {
                return Err(format!("let {}_{}: environment {} does not end with the arguments {}", l.var.name, l.var.id, show(&env), show(args)));
            }
            let mut ne = env[..env.len() - args.len()].to_vec();
            ne.push(ContextBinding { var: l.var.clone(), chi: Chirality::Prd, ty: l.ty.clone() });
            check(prog, &l.next, ne)
        }
        Statement::Switch(sw) => {
            let Some(last) = env.last() else { return Err("switch in an empty environment".into()) };
            if last.var.id != sw.var.id {
                return Err(format!("switch {}_{}: the scrutinee is not the last variable of environment {}", sw.var.name, sw.var.id, show(&env)));
            }
            let rest = env[..env.len() - 1].to_vec();
            for c in &sw.clauses {
                let mut ne = rest.clone();
                ne.extend(c.context.bindings.clone());
                check(prog, &c.body, ne)?;
            }
            Ok(())
        }
        Statement::Create(c) => {
            let Some(cl) = &c.context else { return Err(format!("create {}_{}: the closure environment is not annotated", c.var.name, c.var.id)) };
            if !ends_with(&env, &cl.bindings) {
                return Err(format!("create {}_{}: environment {} does not end with the captured environment {}", c.var.name, c.var.id, show(&env), show(&cl.bindings)));
            }
            for clause in &c.clauses {
                let mut ne = clause.context.bindings.clone();
                ne.extend(cl.bindings.clone());
                check(prog, &clause.body, ne)?;
            }
            let mut ne = env[..env.len() - cl.bindings.len()].to_vec();
            ne.push(ContextBinding { var: c.var.clone(), chi: Chirality::Cns, ty: c.ty.clone() });
            check(prog, &c.next, ne)
        }
        Statement::Invoke(i) => {
            let Some(last) = env.last() else { return Err("invoke in an empty environment".into()) };
            if last.var.id != i.var.id {
                return Err(format!("invoke {}_{}: the closure is not the last variable of environment {}", i.var.name, i.var.id, show(&env)));
            }
            let decl = i.ty.lookup_type_declaration(&prog.types);
            let sig = &decl.xtors[decl.xtor_position(&i.tag)];
            let args = &env[..env.len() - 1];
            if sig.args.bindings.len() != args.len() || !sig.args.bindings.iter().zip(args).all(|(a, b)| same_shape(a, b)) {
                return Err(format!("invoke {}_{}.{}: environment {} is not exactly arguments then closure", i.var.name, i.var.id, i.tag.name, show(&env)));
            }
            Ok(())
        }
        Statement::Literal(l) => {
            let mut ne = env.clone();
            ne.push(ContextBinding { var: l.var.clone(), chi: Chirality::Ext, ty: axcut::syntax::Ty::I64 });
            check(prog, &l.next, ne)
        }
        Statement::Op(o) => {
            for v in [&o.fst, &o.snd] {
                if !has(&env, v.id) {
                    return Err(format!("op {}_{}: variable {}_{} is not in environment {}", o.var.name, o.var.id, v.name, v.id, show(&env)));
                }
            }
            let mut ne = env.clone();
            ne.push(ContextBinding { var: o.var.clone(), chi: Chirality::Ext, ty: axcut::syntax::Ty::I64 });
            check(prog, &o.next, ne)
        }
        Statement::PrintI64(p) => {
            if !has(&env, p.var.id) {
                return Err(format!("print: variable {}_{} is not in environment {}", p.var.name, p.var.id, show(&env)));
            }
            check(prog, &p.next, env)
        }
        Statement::IfC(i) => {
            if !has(&env, i.fst.id) || i.snd.as_ref().map(|s| !has(&env, s.id)).unwrap_or(false) {
                return Err(format!("if: an operand is not in environment {}", show(&env)));
            }
            check(prog, &i.thenc, env.clone())?;
            check(prog, &i.elsec, env)
        }
        Statement::Exit(e) => {
            if !has(&env, e.var.id) {
                return Err(format!("exit: variable {}_{} is not in environment {}", e.var.name, e.var.id, show(&env)));
            }
            Ok(())
        }
    }
}

pub type _T = TypingContext;

//! C14 (bounded): label well-formedness of whole emitted assembly files, on a corpus of accepted Fun
//! programs run through the REAL pipeline (driver::Driver::linearized + coder::compile + routine):
//! every label is defined exactly once, every referenced label is defined (or is one of the runtime
//! entry points), every label is a valid assembler symbol, no generated label equals a runtime
//! symbol.  The same programs are also executed on the machine models and compared with the AxCut
//! reference machine (C06-C08 on pipeline output), and their linearized form is checked for exact
//! environments (C05 on pipeline output).
use crate::axmachine;
use crate::machine::*;
use crate::report::*;
use std::collections::HashMap;
use std::path::PathBuf;

pub fn corpus() -> Vec<(PathBuf, Vec<i64>)> {
    let mut out = vec![];
    let mut dirs: Vec<PathBuf> = vec![];
    if let Ok(rd) = std::fs::read_dir("/repo/examples") {
        for e in rd.flatten() {
            dirs.push(e.path());
        }
    }
    dirs.push(PathBuf::from("/verif/native/corpus"));
    dirs.sort();
    for d in dirs {
        let Ok(rd) = std::fs::read_dir(&d) else { continue };
        let mut files: Vec<PathBuf> = rd.flatten().map(|e| e.path()).filter(|p| p.extension().map(|x| x == "sc").unwrap_or(false)).collect();
        files.sort();
        for f in files {
            let mut args = vec![];
            let a = f.with_extension("args");
            if let Ok(t) = std::fs::read_to_string(&a) {
                if let Some(line) = t.lines().find(|l| l.trim_start().starts_with("test_args")) {
                    // test_args = ["5", "7"]
                    for tok in line.split('"').skip(1).step_by(2) {
                        if let Ok(v) = tok.trim().parse::<i64>() {
                            args.push(v);
                        }
                    }
                } else {
                    for tok in t.split_whitespace() {
                        if let Ok(v) = tok.parse::<i64>() {
                            args.push(v);
                        }
                    }
                }
            }
            out.push((f, args));
        }
    }
    out
}

pub fn is_symbol(l: &str) -> bool {
    let mut cs = l.chars();
    cs.next().is_some_and(|c| c.is_ascii_alphabetic() || c == '_' || c == '.') && cs.all(|c| c.is_ascii_alphanumeric() || c == '_' || c == '.' || c == '$')
}

pub const RUNTIME_SYMBOLS: [&str; 6] = ["asm_main", "cleanup", "print_i64", "println_i64", "main", "write"];

/// (defined labels, referenced labels) of a code list, from the Debug rendering of the instruction
pub fn label_check(defs: &[String], refs: &[String], arch: &str) -> Result<(), String> {
    let mut count: HashMap<&str, usize> = HashMap::new();
    for d in defs {
        *count.entry(d.as_str()).or_insert(0) += 1;
    }
    for (l, n) in &count {
        if !is_symbol(l) {
            return Err(format!("{arch}: label `{l}` is not a valid assembler symbol"));
        }
        if *n != 1 {
            let is_runtime = RUNTIME_SYMBOLS.contains(l);
            return Err(format!("{arch}: label `{l}` is defined {n} times{}", if is_runtime { " (collides with a runtime / generated symbol)" } else { "" }));
        }
    }
    for r in refs {
        if !count.contains_key(r.as_str()) && r != "print_i64" && r != "println_i64" {
            return Err(format!("{arch}: label `{r}` is referenced but never defined"));
        }
    }
    Ok(())
}

pub fn x86_labels(code: &[axcut2x86_64::code::Code]) -> (Vec<String>, Vec<String>) {
    use axcut2x86_64::code::Code::*;
    let (mut d, mut r) = (vec![], vec![]);
    for c in code {
        match c {
            LAB(l) => d.push(l.clone()),
            JMPL(l) | JMPLN(l) | LEAL(_, l) | JEL(l) | JNEL(l) | JLL(l) | JLEL(l) | JGL(l) | JGEL(l) | CALL(l) | GLOBAL(l) => r.push(l.clone()),
            _ => {}
        }
    }
    (d, r)
}

pub fn a64_labels(code: &[axcut2aarch64::code::Code]) -> (Vec<String>, Vec<String>) {
    use axcut2aarch64::code::Code::*;
    let (mut d, mut r) = (vec![], vec![]);
    for c in code {
        match c {
            LAB(l) => d.push(l.clone()),
            B(l) | BL(l) | ADR(_, l) | BEQ(l) | BNE(l) | BLT(l) | BLE(l) | BGT(l) | BGE(l) | GLOBAL(l) => r.push(l.clone()),
            _ => {}
        }
    }
    (d, r)
}

pub fn rv_labels(code: &[axcut2rv64::code::Code]) -> (Vec<String>, Vec<String>) {
    use axcut2rv64::code::Code::*;
    let (mut d, mut r) = (vec![], vec![]);
    for c in code {
        match c {
            LAB(l) => d.push(l.clone()),
            JAL(_, l) | LA(_, l) | BEQ(_, _, l) | BNE(_, _, l) | BLT(_, _, l) | BLE(_, _, l) | BGT(_, _, l) | BGE(_, _, l) => r.push(l.clone()),
            _ => {}
        }
    }
    // the rv64 "routine" appends the cleanup label as text only
    d.push("cleanup".to_string());
    (d, r)
}

pub struct FileResult {
    pub accepted: bool,
    pub failures: Vec<(String, Failure)>,
    pub executed: usize,
}

pub fn check_file(path: &PathBuf, args: &[i64], seed: u64) -> FileResult {
    let mut res = FileResult { accepted: false, failures: vec![], executed: 0 };
    let _g = crate::GEN_LOCK.lock().unwrap_or_else(|e| e.into_inner());
    let mut drv = driver::Driver::new();
    let lin = match drv.linearized(path) {
        Ok(p) => p,
        Err(e) => {
            if std::env::var("SCC_DEBUG").is_ok() {
                eprintln!("rejected {}: {:?}", path.display(), e);
            }
            return res;
        }
    };
    res.accepted = true;
    let name = path.file_name().unwrap().to_string_lossy().to_string();
    let mk = |what: String, instr: Vec<String>| Failure { what, input: format!("{} with arguments {args:?}", path.display()), instructions: instr, detail: String::new() };
    if let Err(e) = crate::linwf::check_prog(&lin) {
        res.failures.push(("native::pipeline::linearize::exact-environments".into(), mk(format!("{name}: the linearized program is not exact: {e}"), crate::progs::show(&lin))));
    }
    if lin.defs[0].context.bindings.len() != args.len() {
        // no argument file: run with zeros
    }
    let mut a = args.to_vec();
    a.resize(lin.defs[0].context.bindings.len(), 0);
    let want = axmachine::run(&lin, &a, 2_000_000, true);
    // x86-64
    {
        let asm = axcut2x86_64::into_routine::into_x86_64_routine(axcut2backend::coder::compile::<axcut2x86_64::Backend, _, _, _>(lin.clone()));
        let (d, r) = x86_labels(&asm.instructions);
        if let Err(e) = label_check(&d, &r, "x86_64") {
            res.failures.push(("native::x86_64::assembly::labels".into(), mk(format!("{name}: {e}"), vec![])));
        } else if want.stuck.is_none() && a.len() <= 5 {
            let mut st = crate::x86::X86::new(seed);
            st.set_zero_region(crate::heap::HEAP_BASE, crate::heap::HEAP_BASE + (1 << 32));
            st.set_sp(0x7fff_0000_1008);
            let regs = [7usize, 6, 5, 1, 8, 9];
            st.set_reg(regs[0], crate::heap::HEAP_BASE);
            for (i, v) in a.iter().enumerate() {
                st.set_reg(regs[1 + i], *v as u64);
            }
            let ex = st.exec_limit(&asm.instructions, 50_000_000);
            let got: Vec<(bool, i64)> = st.calls().iter().map(|(n, v)| (n == "println_i64", *v as i64)).collect();
            res.executed += 1;
            if ex != Exit::Ret || got != want.prints || Some(st.reg(4) as i64) != want.result {
                res.failures.push(("native::x86_64::compile::behaves-like-axcut-machine".into(), mk(format!("{name}: generated code: exit {ex:?}, prints {got:?}, result {}; AxCut machine: {want:?}", st.reg(4) as i64), vec![])));
            }
        }
    }
    // AArch64
    {
        let asm = axcut2aarch64::into_routine::into_aarch64_routine(axcut2backend::coder::compile::<axcut2aarch64::Backend, _, _, _>(lin.clone()));
        let (d, r) = a64_labels(&asm.instructions);
        if let Err(e) = label_check(&d, &r, "aarch64") {
            res.failures.push(("native::aarch64::assembly::labels".into(), mk(format!("{name}: {e}"), vec![])));
        } else if want.stuck.is_none() && a.len() <= 7 {
            let mut st = crate::a64::A64::new(seed);
            st.set_zero_region(crate::heap::HEAP_BASE, crate::heap::HEAP_BASE + (1 << 32));
            st.set_sp(0x7fff_0000_1000);
            st.set_reg(0, crate::heap::HEAP_BASE);
            for (i, v) in a.iter().enumerate() {
                st.set_reg(1 + i, *v as u64);
            }
            let ex = st.exec_limit(&asm.instructions, 50_000_000);
            let got: Vec<(bool, i64)> = st.calls().iter().map(|(n, v)| (n == "println_i64", *v as i64)).collect();
            res.executed += 1;
            if ex != Exit::Ret || got != want.prints || Some(st.reg(0) as i64) != want.result {
                res.failures.push(("native::aarch64::compile::behaves-like-axcut-machine".into(), mk(format!("{name}: generated code: exit {ex:?}, prints {got:?}, result {}; AxCut machine: {want:?}", st.reg(0) as i64), vec![])));
            }
        }
    }
    // RISC-V: labels only (print is not implemented, capacity 14 variables): code generation may legitimately panic
    {
        let l2 = lin.clone();
        let r = std::panic::catch_unwind(std::panic::AssertUnwindSafe(|| axcut2backend::coder::compile::<axcut2rv64::Backend, _, _, _>(l2)));
        if let Ok(asm) = r {
            let (d, rf) = rv_labels(&asm.instructions);
            if let Err(e) = label_check(&d, &rf, "rv64") {
                res.failures.push(("native::rv64::assembly::labels".into(), mk(format!("{name}: {e}"), vec![])));
            }
        }
    }
    res
}

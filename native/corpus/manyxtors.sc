data Day { D0, D1, D2, D3, D4, D5, D6, D7, D8, D9, D10, D11 }
codata Obj { m0(x: i64): i64, m1(x: i64): i64, m2(x: i64): i64, m3(x: i64): i64, m4(x: i64): i64, m5(x: i64, y: i64): i64 }

def num(d: Day): i64 {
  d.case { D0 => 0, D1 => 1, D2 => 2, D3 => 3, D4 => 4, D5 => 5, D6 => 6, D7 => 7, D8 => 8, D9 => 9, D10 => 10, D11 => 11 }
}
def mk(k: i64): Obj {
  new { m0(x) => x, m1(x) => x + k, m2(x) => x * k, m3(x) => x - k, m4(x) => k - x, m5(x, y) => (x * y) + k }
}
def main(): i64 {
  println_i64(num(D11) + (num(D0) + num(D7)));
  println_i64(((mk(3).m5(4, 5)) + (mk(2).m0(9))) + (((mk(7).m4(1)) + (mk(5).m3(2))) + ((mk(1).m1(1)) + (mk(2).m2(6)))));
  0
}

data List[A] { Nil, Cons(x: A, xs: List[A]) }
data Opt { None, Some(v: i64) }

def range(n: i64): List[i64] { if n == 0 { Nil } else { Cons(n, range(n - 1)) } }

def sum(l: List[i64]): i64 {
    l.case[i64] { Nil => 0,
                  Cons(x, xs) => x + sum(xs) } }

def find(l: List[i64], k: i64): Opt {
    l.case[i64] { Nil => None,
                  Cons(x, xs) => if x == k { Some(x) } else { find(xs, k) } } }

def get(o: Opt): i64 { o.case { None => 0 - 1, Some(v) => v } }

def twolists(n: i64): i64 {
  let a: List[i64] = range(n);
  let b: List[i64] = range(n + 1);
  let c: Opt = find(b, 2);
  sum(a) + (sum(b) + get(c))
}

def main(): i64 {
  let l: List[i64] = range(3);
  let k: List[i64] = range(4);
  println_i64(sum(l) + sum(k));
  println_i64(twolists(2));
  let o: Opt = find(l, 7);
  println_i64(get(o));
  0
}

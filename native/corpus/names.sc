def lab1(x: i64): i64 { x + 1 }
def lab2(x: i64): i64 { if x == 0 { 1 } else { x * 2 } }
def cleanup(x: i64): i64 { x * 2 }
def asm_main(x: i64): i64 { x - 1 }
def f(x: i64): i64 { let a: i64 = if x == 0 { 1 } else { let y: i64 = x - 1; y + f(y) }; a + 1 }
def share_f_0(x: i64): i64 { x + 100 }
def share_f_1(x: i64): i64 { x + 200 }
def share_main_0(x: i64): i64 { x + 300 }
def setup(x: i64): i64 { x + 5 }
def heap(x: i64): i64 { x + 7 }
def rax(x: i64): i64 { x + 9 }
def g(x: i64): i64 { let a: i64 = if x > 2 { f(x) } else { lab2(x) }; a + share_f_0(a) }
def share_g_0(x: i64): i64 { x + 400 }
def share_g_1(x: i64): i64 { x + 500 }
def main(): i64 {
  println_i64(lab1(cleanup(asm_main(share_f_0(f(3))))));
  println_i64((g(4) + share_f_1(1)) + ((share_main_0(2) + setup(1)) + (heap(2) + (rax(3) + (share_g_0(1) + share_g_1(1))))));
  0
}

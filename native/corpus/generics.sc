data List[A] { Nil, Cons(x: A, xs: List[A]) }
data Pair[A, B] { Tup(x: A, y: B) }
codata Fun[A, B] { apply(x: A): B }

def first(p: Pair[List[i64], i64]): List[i64] {
  p.case[List[i64], i64] { Tup(a, b) => a }
}
def second(p: Pair[Pair[i64, List[i64]], List[List[i64]]]): List[List[i64]] {
  p.case[Pair[i64, List[i64]], List[List[i64]]] { Tup(a, b) => b }
}
def head(l: List[i64]): i64 {
  l.case[i64] { Nil => 0, Cons(x, xs) => x }
}
def headhead(l: List[List[i64]]): i64 {
  l.case[List[i64]] { Nil => 0 - 1, Cons(x, xs) => head(x) }
}
def twice(f: Fun[Pair[i64, i64], Pair[i64, i64]], p: Pair[i64, i64]): Pair[i64, i64] {
  f.apply[Pair[i64, i64], Pair[i64, i64]](f.apply[Pair[i64, i64], Pair[i64, i64]](p))
}
def fst(p: Pair[i64, i64]): i64 { p.case[i64, i64] { Tup(a, b) => a } }
def main(): i64 {
  println_i64(head(first(Tup(Cons(5, Nil), 1))));
  println_i64(headhead(second(Tup(Tup(1, Nil), Cons(Cons(7, Nil), Nil)))));
  println_i64(fst(twice(new { apply(p) => p.case[i64, i64] { Tup(a, b) => Tup(a + b, a) } }, Tup(3, 4))));
  0
}

"""Auxiliary checks (native bounded contract checks, Kani, CBMC) and counterexample search / replay."""
import fcntl
import json
import os
import re
import subprocess
import sys
import time

VERIF = os.path.dirname(os.path.dirname(os.path.abspath(__file__)))
NATIVE = os.path.join(VERIF, 'native')
NATIVE_BIN = os.path.join(NATIVE, 'target', 'release', 'scc_native')


class InfraError(Exception):
    pass


class AuxResult:
    def __init__(self, name, level='bounded'):
        self.name = name
        self.level = level          # 'proof' (complete) or 'bounded'
        self.obligations = 0
        self.discharged = 0
        self.functions = []
        self.cases = 0
        self.nontrivial = 0
        self.bound = ''
        self.violations = []        # dicts with 'obligation', 'counterexample', ...
        self.samples = []
        self.assumptions = []
        self.cmds = []
        self.wall_s = 0.0

    def summary(self):
        return {'name': self.name, 'kind': 'bounded (never counted as proved)' if self.level != 'proof' else 'complete',
                'bound': self.bound, 'cases': self.cases, 'distinct_nontrivial': self.nontrivial,
                'functions': self.functions, 'wall_s': round(self.wall_s, 1)}


REGISTRY = {}


def register(name):
    def deco(f):
        REGISTRY[name] = f
        return f
    return deco


def run(name, prop, tier, seed):
    t0 = time.time()
    r = REGISTRY[name](prop, tier, seed)
    r.wall_s = time.time() - t0
    return r


# ---- native crate ---------------------------------------------------------------------------------
_built = False


def native_build():
    """(Re)build the native harness against /repo's current working tree (path dependencies)."""
    global _built
    if _built:
        return
    os.makedirs(os.path.join(VERIF, 'build'), exist_ok=True)
    lock = open(os.path.join(VERIF, 'build', '.native.lock'), 'w')
    fcntl.flock(lock, fcntl.LOCK_EX)
    try:
        env = dict(os.environ, CARGO_NET_OFFLINE='true')
        p = subprocess.run(['cargo', 'build', '--release', '--offline', '-q'], cwd=NATIVE, capture_output=True, text=True, env=env, timeout=1800)
        if p.returncode != 0:
            raise InfraError('native harness does not build against /repo (API of the crates changed?):\n' + p.stderr[-3000:])
        _built = True
    finally:
        fcntl.flock(lock, fcntl.LOCK_UN)
        lock.close()


def native_run(args, timeout=3600):
    native_build()
    cmd = [NATIVE_BIN] + args
    p = subprocess.run(cmd, capture_output=True, text=True, timeout=timeout)
    if p.returncode != 0:
        raise InfraError('native harness failed: %s\n%s' % (' '.join(cmd), p.stderr[-2000:]))
    try:
        return json.loads(p.stdout), ' '.join(cmd)
    except Exception:
        raise InfraError('native harness produced no JSON: ' + p.stdout[-500:])


def _native_result(name, sums, cmd, functions, backend_filter=None):
    r = AuxResult(name)
    r.cmds = ['cargo build --release --offline (in /verif/native, path-depends on /repo/lang/*) ; ' + cmd]
    r.functions = functions
    bounds = []
    for s in sums:
        if backend_filter and not s['check'].endswith('/' + backend_filter):
            continue
        r.cases += s['cases']
        r.nontrivial += s['nontrivial']
        bounds.append('%s: %s' % (s['check'], s['bound']))
        r.samples += [{'bounded_check': s['check'], 'case': x} for x in s['samples'][:2]]
        for v in s['violations']:
            v = dict(v)
            v['kind'] = 'native'
            v['counterexample'] = {'input': v.get('input'), 'what': v.get('what'), 'instructions': v.get('instructions'),
                                   'replay_cmd': cmd}
            v['witness_class'] = v.get('what', '')[:60]
            r.violations.append(v)
    r.bound = ' | '.join(bounds)
    r.assumptions = ['T5 token parametricity: data-movement code is checked on pairwise distinct random tokens',
                     'executable machine models /verif/native/src/{x86,a64,rv}.rs follow the same instruction tables as spec/isa_*.rs (T1)']
    return r


@register('native_moves')
def native_moves(prop, tier, seed):
    sums, cmd = native_run(['moves', '--tier', tier, '--seed', str(seed)])
    return _native_result('native_moves', sums, cmd,
                          ['axcut2backend::statements::substitute::Substitute::code_statement', 'axcut2backend::substitution::{transpose,code_exchange,code_weakening_contraction}',
                           'axcut2backend::parallel_moves::{parallel_moves,spanning_forest,spanning_tree,root_moves,tree_moves,delete_targets}',
                           '<backend>::parallel_moves::{contains_spill_edge,store_temporary,restore_temporary}', '<backend>::code::mov', '<backend>::memory::{erase_block,share_block_n}'])


@register('native_prints')
def native_prints(prop, tier, seed):
    sums, cmd = native_run(['prints', '--tier', tier, '--seed', str(seed)])
    return _native_result('native_prints', sums, cmd,
                          ['<x86_64|aarch64>::code::{print_i64,caller_save_registers_info,save_caller_save_registers,restore_caller_save_registers}',
                           '<x86_64|aarch64>::into_routine::{into_*_routine,preamble,setup,move_arguments,cleanup}', 'axcut2backend::coder::{compile,translate,assemble}',
                           'axcut2backend::statements::exit::Exit::code_statement'])


@register('native_heap')
def native_heap(prop, tier, seed):
    sums, cmd = native_run(['heap', '--tier', tier, '--seed', str(seed)])
    return _native_result('native_heap', sums, cmd,
                          ['<backend>::memory::{store,load,store_fields,load_fields,store_values,load_values,store_value,load_value,store_field,load_field,store_zeros,acquire_block,release_block,erase_block,share_block_n,skip_if_zero,if_zero_then_else}',
                           'axcut2backend::statements::substitute::Substitute::code_statement'])


def _per_backend(kind, base_fn, backend, use_flag):
    def f(prop, tier, seed):
        if use_flag:
            sums, cmd = native_run([kind, '--backend', backend, '--tier', tier, '--seed', str(seed)])
            r = _native_result('native_%s/%s' % (kind, backend), sums, cmd, base_fn(prop, None, None, functions_only=True))
        else:
            sums, cmd = native_run([kind, '--tier', tier, '--seed', str(seed)])
            r = _native_result('native_%s/%s' % (kind, backend), sums, cmd, base_fn(prop, None, None, functions_only=True), backend_filter=backend)
        return r
    return f


def _functions_of(name):
    # the function lists of the all-backend variants, reused for the per-backend ones
    table = {
        'moves': ['axcut2backend::statements::substitute::Substitute::code_statement', 'axcut2backend::substitution::{transpose,code_exchange,code_weakening_contraction}',
                  'axcut2backend::parallel_moves::{parallel_moves,spanning_forest,spanning_tree,root_moves,tree_moves,delete_targets}',
                  '<backend>::parallel_moves::{contains_spill_edge,store_temporary,restore_temporary}', '<backend>::code::mov', '<backend>::memory::{erase_block,share_block_n}'],
        'prints': ['<backend>::code::{print_i64,caller_save_registers_info,save_caller_save_registers,restore_caller_save_registers}',
                   '<backend>::into_routine::{into_*_routine,preamble,setup,move_arguments,cleanup}', 'axcut2backend::coder::{compile,translate,assemble}'],
        'heap': ['<backend>::memory::{store,load,store_fields,load_fields,store_values,load_values,store_value,load_value,store_field,load_field,store_zeros,acquire_block,release_block,erase_block,share_block_n,skip_if_zero,if_zero_then_else}',
                 'axcut2backend::statements::substitute::Substitute::code_statement'],
    }
    return lambda prop, tier, seed, functions_only=False: table[name]


for _kind, _flag in (('moves', False), ('prints', False), ('heap', True)):
    for _short, _be in (('x86', 'x86_64'), ('a64', 'aarch64'), ('rv', 'rv64')):
        if _kind == 'prints' and _short == 'rv':
            continue
        REGISTRY['native_%s_%s' % (_kind, _short)] = _per_backend(_kind, _functions_of(_kind), _be, _flag)


@register('native_linearize')
def native_linearize(prop, tier, seed):
    sums, cmd = native_run(['linearize', '--tier', tier, '--seed', str(seed)])
    return _native_result('native_linearize', sums, cmd,
                          ['axcut::syntax::Prog::linearize', 'axcut::syntax::Def::linearize', 'axcut::traits::linearize::Linearizing for {Call,Let,Switch,Create,Invoke,Literal,Op,PrintI64,IfC,Substitute}',
                           'axcut::traits::free_vars::FreeVars', 'axcut::syntax::context::TypingContext::{freshen,filter_by_set}'])


def _programs(prop, tier, seed, backend):
    sums, cmd = native_run(['programs', '--backend', backend, '--tier', tier, '--seed', str(seed)])
    return _native_result('native_programs/' + backend, sums, cmd,
                          ['axcut2backend::coder::compile', 'axcut2backend::statements::*::code_statement', 'axcut2backend::utils::{code_table,code_clauses,code_methods}',
                           '<%s>::{code,memory,parallel_moves,utils,config,into_routine}::*' % backend], backend)


@register('native_programs_x86')
def native_programs_x86(prop, tier, seed):
    return _programs(prop, tier, seed, 'x86_64')


@register('native_programs_a64')
def native_programs_a64(prop, tier, seed):
    return _programs(prop, tier, seed, 'aarch64')


@register('native_programs_rv')
def native_programs_rv(prop, tier, seed):
    return _programs(prop, tier, seed, 'rv64')


@register('native_labels')
def native_labels(prop, tier, seed):
    sums, cmd = native_run(['labels', '--seed', str(seed)])
    return _native_result('native_labels', sums, cmd,
                          ['driver::Driver::{parsed,checked,compiled,focused,shrunk,linearized}', 'axcut2backend::coder::{compile,assemble}', 'axcut2backend::statements::{switch,create}::code_statement (table / clause labels)',
                           'fun2core::compile::share (generated definition names)', '<backend>::into_routine::*'])


def _emitters(prop, tier, seed, backend):
    sums, cmd = native_run(['emitters', '--backend', backend, '--seed', str(seed)])
    return _native_result('native_emitters/' + backend, sums, cmd, ['<%s>::code::Instructions::*' % backend], backend)


@register('native_emitters_x86')
def native_emitters_x86(prop, tier, seed):
    return _emitters(prop, tier, seed, 'x86_64')


@register('native_emitters_a64')
def native_emitters_a64(prop, tier, seed):
    return _emitters(prop, tier, seed, 'aarch64')


@register('native_emitters_rv')
def native_emitters_rv(prop, tier, seed):
    return _emitters(prop, tier, seed, 'rv64')


KANI = os.path.join(VERIF, 'kani')


def _kani(harnesses, name, complete):
    r = AuxResult(name, level='proof' if complete else 'bounded')
    env = dict(os.environ, CARGO_NET_OFFLINE='true')
    cmd = ['cargo', 'kani'] + sum([['--harness', h] for h in harnesses], [])
    t0 = time.time()
    p = subprocess.run(cmd, cwd=KANI, capture_output=True, text=True, env=env, timeout=3600)
    out = p.stdout + p.stderr
    r.cmds = ['(cd /verif/kani && CARGO_NET_OFFLINE=true ' + ' '.join(cmd) + ')']
    m = re.search(r'Complete - (\d+) successfully verified harnesses, (\d+) failures, (\d+) total', out)
    if not m:
        raise InfraError('cargo kani did not complete:\n' + out[-3000:])
    ok, bad, total = int(m.group(1)), int(m.group(2)), int(m.group(3))
    if total != len(harnesses):
        raise InfraError('kani ran %d harnesses, expected %d' % (total, len(harnesses)))
    r.obligations = total
    r.discharged = ok
    r.cases = total
    r.nontrivial = total
    r.functions = ['kani harness ' + h for h in harnesses]
    r.bound = 'loop-free harnesses over full-domain integers (complete)' if complete else 'fresh_label: 4 consecutive calls from the initial counter value (bounded)'
    r.samples = [{'kani_harness': h} for h in harnesses[:3]]
    r.assumptions = ['Kani 0.68 / CBMC 6.11 (CaDiCaL); no termination proof by Kani']
    if bad:
        # one violation per failing harness
        for blk in out.split('Checking harness ')[1:]:
            hname = blk.split('...')[0].strip()
            if 'VERIFICATION:- FAILED' in blk:
                fails = re.findall(r'Failed Checks: (.*)', blk)
                r.violations.append({'obligation': 'kani::%s' % hname, 'kind': 'kani', 'what': '; '.join(fails)[:500],
                                     'verifier_output': blk[-3000:], 'witness_class': hname,
                                     'counterexample': None})
    return r


@register('kani_bitkernels')
def kani_bitkernels(prop, tier, seed):
    return _kani(['halfword_bridge', 'not16_roundtrip'], 'kani_bitkernels', True)


@register('kani_fresh_label')
def kani_fresh_label(prop, tier, seed):
    # mechanical extraction of the real file for the inductive harness: only `//!` module doc lines are dropped
    src = '/repo/lang/axcut2backend/src/fresh_labels.rs'
    try:
        text = open(src).read()
    except OSError as e:
        raise InfraError('fresh_labels.rs not found (anchor lost): %s' % e)
    if 'fn fresh_label' not in text or 'COUNTER' not in text:
        raise InfraError('fresh_labels.rs no longer defines fresh_label/COUNTER (anchor lost)')
    out = '\n'.join(l for l in text.split('\n') if not l.lstrip().startswith('//!'))
    with open(os.path.join(KANI, 'src', 'fresh_labels_extracted.rs'), 'w') as f:
        f.write(out)
    r = _kani(['fresh_label_increasing', 'fresh_label_inductive'], 'kani_fresh_label', True)
    r.bound = 'fresh_label: one call from an ARBITRARY counter value below usize::MAX (inductive step, complete) + 4 consecutive calls of the linked crate from the initial value'
    r.assumptions.append('the counter does not wrap (fewer than 2^64 labels); the inductive harness runs the text of fresh_labels.rs included into the harness crate (module doc lines dropped)')
    return r


EMITTER_NAMES = ['add', 'sub', 'mul', 'div', 'rem', 'mov', 'load_immediate', 'load_label', 'add_and_jump', 'jump']


def emitter_of(fn):
    """Map a verified function id to the public emitter whose native contract exercises it."""
    base = fn.split('::')[-1].split('/')[0]
    if base.startswith('jump_label_if'):
        return base
    m = re.match(r'op(?:_commutative)?__(\w+)$', base)
    if m:
        return m.group(1)
    for suf in ('_to_register', '_to_spill'):
        if base.endswith(suf):
            return base[:-len(suf)]
    if base in ('move_to_register', 'move_from_register'):
        return 'mov'
    if base in ('compare',):
        return 'jump_label_if_less'
    if base in ('compare_immediate',):
        return 'jump_label_if_less_zero'
    if base in EMITTER_NAMES:
        return base
    return None


def backend_of(unit):
    if unit.startswith('x86'):
        return 'x86_64'
    if unit.startswith('a64'):
        return 'aarch64'
    if unit.startswith('rv'):
        return 'rv64'
    return None


def find_counterexample(prop, unit, fn, obligation, tier):
    fn = fn or ''
    """Search a concrete failing input for a rejected / undecided Verus obligation by running the real
    function natively against the executable form of its contract."""
    backend = backend_of(unit)
    if backend and unit.endswith('_memory'):
        try:
            sums, cmd = native_run(['heap', '--backend', backend, '--tier', 'quick'], timeout=900)
        except Exception:
            return None
        for s in sums:
            for v in s['violations']:
                return {'found_by': 'native heap audit of the real memory code', 'backend': backend, 'input': v.get('input'),
                        'what': v.get('what'), 'instructions': v.get('instructions'), 'replay_cmd': cmd}
        return None
    if backend and (unit.endswith('_routine') or 'caller_save' in fn or 'print_i64' in fn):
        try:
            sums, cmd = native_run(['prints', '--tier', 'quick'], timeout=900)
        except Exception:
            return None
        for s in sums:
            if not s['check'].endswith('/' + backend):
                continue
            for v in s['violations']:
                return {'found_by': 'native execution of the real routine skeleton / print sequence', 'backend': backend, 'input': v.get('input'),
                        'what': v.get('what'), 'instructions': v.get('instructions'), 'replay_cmd': cmd}
        return None
    em = emitter_of(fn)
    if not backend or not em:
        return None
    try:
        sums, cmd = native_run(['emitters', '--backend', backend, '--only', em], timeout=600)
    except Exception:
        return None
    for s in sums:
        for v in s['violations']:
            return {'found_by': 'native contract replay of the real emitter', 'emitter': em, 'backend': backend,
                    'input': v.get('input'), 'what': v.get('what'), 'instructions': v.get('instructions'), 'replay_cmd': cmd}
    return None


def replay(prop, path):
    with open(path) as f:
        rep = json.load(f)
    print('property   : %s' % rep.get('property'))
    print('obligation : %s' % rep.get('obligation'))
    if rep.get('clause'):
        print('clause     : %s' % rep.get('clause'))
    if rep.get('source'):
        print('source     : %s' % rep.get('source'))
    cex = rep.get('counterexample')
    if rep.get('verifier_output'):
        print('--- verifier output when the violation was found ---')
        print(rep['verifier_output'])
    if cex and cex.get('replay_cmd'):
        print('--- replaying against the real code: %s' % cex['replay_cmd'])
        print('recorded input : %s' % cex.get('input'))
        print('recorded result: %s' % cex.get('what'))
        native_build()
        p = subprocess.run(cex['replay_cmd'].split(), capture_output=True, text=True)
        try:
            sums = json.loads(p.stdout)
        except Exception:
            print(p.stdout[-2000:], p.stderr[-2000:])
            return 2
        nv = 0
        for s in sums:
            for v in s['violations']:
                nv += 1
                print('STILL FAILS: %s | %s | %s' % (v.get('obligation'), v.get('input'), v.get('what')))
                for ins in (v.get('instructions') or [])[:40]:
                    print('    ' + ins)
        if nv == 0:
            print('the recorded input no longer fails on the current tree')
            return 0
        return 1
    print('no concrete input recorded (no-failing-input-found); re-run ./check %s to re-verify the obligation' % rep.get('property'))
    return 0


# ---- CBMC: C runtime (io.c) and generated C drivers (C20) -----------------------------------------
IO_C = '/repo/lang/driver/infrastructure/io.c'
CDIR = os.path.join(VERIF, 'c')
CBMC_FLAGS = ['--signed-overflow-check', '--bounds-check', '--pointer-check', '--unwind', '22', '--unwinding-assertions']


def _cbmc(args, timeout):
    t0 = time.time()
    try:
        p = subprocess.run(['cbmc'] + args, capture_output=True, text=True, timeout=timeout)
    except subprocess.TimeoutExpired:
        return 'timeout', '', time.time() - t0
    out = p.stdout + p.stderr
    if 'VERIFICATION SUCCESSFUL' in out:
        return 'ok', out, time.time() - t0
    if 'VERIFICATION FAILED' in out:
        return 'fail', out, time.time() - t0
    return 'error', out, time.time() - t0


def io_boundaries():
    vals = [0, 1, -1, 9, -9, 10, -10, 2**31, -2**31, 2**31 - 1, -2**31 - 1, 2**32, -2**32, 2**63 - 1, -2**63, -2**63 + 1]
    for k in range(1, 19):
        vals += [10**k - 1, -(10**k - 1), 10**k, -(10**k), 10**k + 1]
    return sorted(set(vals))


def c_lit(v):
    if v == -2**63:
        return '(-9223372036854775807LL-1)'
    return '(%dLL)' % v


def native_print(v, line):
    """Replay: compile the REAL io.c natively and print v; returns the bytes written."""
    bdir = os.path.join(VERIF, 'build', 'io_replay')
    os.makedirs(bdir, exist_ok=True)
    main_c = os.path.join(bdir, 'main.c')
    with open(main_c, 'w') as f:
        f.write('#include <stdint.h>\n#include <stdlib.h>\nvoid print_i64(int64_t) asm("print_i64");\nvoid println_i64(int64_t) asm("println_i64");\n'
                'int main(int c, char**a){ int64_t v = (int64_t)strtoull(a[1], 0, 10); if (a[2][0]==\'1\') println_i64(v); else print_i64(v); return 0; }\n')
    exe = os.path.join(bdir, 'io_replay')
    p = subprocess.run(['gcc', '-O0', '-fwrapv', '-o', exe, main_c, IO_C], capture_output=True, text=True)
    if p.returncode != 0:
        return None
    r = subprocess.run([exe, str(v % 2**64), '1' if line else '0'], capture_output=True)
    return r.stdout


@register('cbmc_io')
def cbmc_io(prop, tier, seed):
    import concurrent.futures as cf
    r = AuxResult('cbmc_io', level='bounded')
    base = [os.path.join(CDIR, 'io_harness.c'), '-DIO_C_PATH="%s"' % IO_C] + CBMC_FLAGS
    jobs = []   # (name, args, timeout)
    if tier == 'quick':
        jobs.append(('symbolic -9999..9999', ['-DLO=-9999', '-DHI=9999'], 600))
        for v in io_boundaries():
            jobs.append(('constant %d' % v, ['-DCONST=%s' % c_lit(v)], 120))
        r.bound = 'CBMC on the real io.c: all values -9999..9999 symbolically (both variants) + %d boundary constants (0, +-1, +-(10^k-1), +-10^k, 10^k+1 for k=1..18, +-2^31, +-2^32, INT64_MAX, INT64_MIN); loop unwound 22x with unwinding assertions' % len(io_boundaries())
    else:
        # digit classes 1..8 (x sign) are covered completely (symbolic over the whole class; the 8-digit class takes
        # ~5 min, the 9-digit class 15 min, larger ones do not finish).  Classes of 9..19 digits are SAMPLED:
        # symbolic windows of 10^4 consecutive values at both ends of the class and at seeded random places.
        import random
        rnd = random.Random(seed)
        bounds = [0] + [10**k for k in range(1, 19)] + [2**63]
        for k in range(len(bounds) - 1):
            lo, hi = bounds[k], bounds[k + 1] - 1
            if k + 1 <= 8:
                jobs.append(('%d-digit non-negative (whole class)' % (k + 1), ['-DLO=%s' % c_lit(lo), '-DHI=%s' % c_lit(hi)], 1200))
                jobs.append(('%d-digit negative (whole class)' % (k + 1), ['-DLO=%s' % c_lit(-hi), '-DHI=%s' % c_lit(-max(lo, 1))], 1200))
            else:
                starts = [lo, hi - 9999] + [rnd.randrange(lo, hi - 9999) for _ in range(6)]
                for st0 in starts:
                    jobs.append(('%d-digit window %d..+9999' % (k + 1, st0), ['-DLO=%s' % c_lit(st0), '-DHI=%s' % c_lit(st0 + 9999)], 300))
                    nlo, nhi = -(st0 + 9999), -st0
                    jobs.append(('%d-digit window %d..+9999' % (k + 1, nlo), ['-DLO=%s' % c_lit(nlo), '-DHI=%s' % c_lit(nhi)], 300))
        jobs.append(('window at INT64_MIN', ['-DLO=%s' % c_lit(-2**63), '-DHI=%s' % c_lit(-2**63 + 9999)], 300))
        for v in io_boundaries():
            jobs.append(('constant %d' % v, ['-DCONST=%s' % c_lit(v)], 120))
        r.bound = ('CBMC on the real io.c: all values of 1..8 decimal digits (both signs) symbolically, class by class (complete for these classes '
                   'if none hits its 20 min cap); for 9..19 digits symbolic windows of 10^4 consecutive values at both ends of every class and at 6 seeded '
                   'random places per class and sign, the window at INT64_MIN, and the boundary constants (bounded)')
    undecided = []
    fails = []

    def one(j):
        return j, _cbmc(base + j[1], j[2])
    with cf.ThreadPoolExecutor(max_workers=14) as ex:
        for j, (st, out, dt) in ex.map(one, jobs):
            r.cases += 1
            if st == 'ok':
                r.nontrivial += 1
            elif st == 'fail':
                fails.append((j, out))
            elif st == 'timeout':
                undecided.append(j[0])
            else:
                raise InfraError('cbmc failed on io.c (%s):\n%s' % (j[0], out[-2000:]))
    r.cmds = ['cbmc c/io_harness.c -DIO_C_PATH=\\"%s\\" -DLO=.. -DHI=.. | -DCONST=.. %s' % (IO_C, ' '.join(CBMC_FLAGS))]
    r.functions = ['lang/driver/infrastructure/io.c: print_i64, println_i64']
    r.samples = [{'cbmc_io_case': j[0]} for j in jobs[:3]]
    r.assumptions = ['write(2) is replaced by a recording stub; CBMC 6.11 with its C semantics (LP64); digit classes that hit the time cap are reported as undecided, never as proved: %s' % (undecided or 'none')]
    for j, out in fails:
        failed = re.findall(r'\[([^\]]+)\] line (\d+) (.*?): FAILURE', out)
        m = re.match(r'constant (-?\d+)', j[0])
        cex = None
        v = int(m.group(1)) if m else None
        line_only = None
        if v is None:
            # symbolic job: ask CBMC for the counterexample trace and read the value (and the variant) from it
            st2, out2, _ = _cbmc(base + j[1] + ['--trace'], j[2])
            mv = re.findall(r'^\s*v=(-?\d+)', out2, re.M)
            if mv:
                v = int(mv[-1])
            ml = re.findall(r'^\s*line=(TRUE|FALSE)', out2, re.M)
            if ml:
                line_only = (ml[-1] == 'TRUE')
        if v is not None:
            ob = {}
            wrong = False
            for line in (False, True):
                b = native_print(v, line)
                ob['println_i64' if line else 'print_i64'] = repr(b)
                if b is not None and b != (str(v) + ('\n' if line else '')).encode():
                    wrong = True
            if wrong:   # only a value that really fails when the real io.c is compiled and run counts as a counterexample
                cex = {'input': 'value = %d' % v, 'what': 'real io.c compiled natively writes %s; expected %r' % (ob, str(v)),
                       'replay_cmd': None}
        r.violations.append({'obligation': 'cbmc::io.c::print_contract', 'kind': 'cbmc', 'what': '; '.join('%s line %s: %s' % f for f in failed[:4]),
                             'input': j[0], 'verifier_output': '\n'.join(l for l in out.split('\n') if 'FAILURE' in l)[:3000],
                             'witness_class': j[0], 'counterexample': cex})
    return r


def _driver_harness(n, driver_path, heap_mib=32, tag=''):
    t = open(os.path.join(CDIR, 'driver_harness.c.tmpl')).read()
    t = t.replace('@HEAPMIB@', str(heap_mib))
    params = ''.join(', int64_t input%d' % i for i in range(1, n + 1))
    stores = '\n'.join('  got[%d] = input%d;' % (i - 1, i) for i in range(1, n + 1))
    t = t.replace('@N@', str(n)).replace('@DRIVER@', driver_path).replace('@PARAMS@', params).replace('@STORES@', stores)
    p = os.path.join(VERIF, 'build', 'driver_harness_%d%s.c' % (n, tag))
    with open(p, 'w') as f:
        f.write(t)
    return p


@register('cbmc_driver')
def cbmc_driver(prop, tier, seed):
    import concurrent.futures as cf
    native_build()
    ddir = os.path.join(VERIF, 'build', 'drivers')
    p = subprocess.run([os.path.join(NATIVE, 'target', 'release', 'gen_drivers'), ddir], capture_output=True, text=True)
    if p.returncode != 0:
        raise InfraError('gen_drivers failed: ' + p.stderr[-2000:])
    r = AuxResult('cbmc_driver', level='proof')
    r.bound = 'CBMC on the driver text generated by the real driver::generate_c_driver(n, None) and (n, Some(8)) for n = 0..7, all argc in 0..n+3, all 64-bit argument values, all results of asm_main (loop-free up to the fixed argument count: complete)'
    r.functions = ['lang/driver/src/lib.rs: generate_c_driver', 'lang/driver/infrastructure/driver-template.c: main']
    r.cmds = ['native/target/release/gen_drivers build/drivers ; cbmc build/driver_harness_<n>.c --unwind 12 --unwinding-assertions --bounds-check --pointer-check']
    r.assumptions = ['atoi/atol/atoll/strtol/strtoll are given their C-standard contracts by type (the denoted value if representable in the result type, unspecified otherwise); calloc/free/write stubbed; POSIX exit status = low 8 bits of main\'s int result (T4)']

    def one(job):
        n, heap = job
        fname = 'driver%d.c' % n if heap is None else 'driver%d_%d.c' % (n, heap)
        h = _driver_harness(n, os.path.join(ddir, 'target_scc', 'infrastructure', fname), heap_mib=heap or 32, tag='' if heap is None else '_%d' % heap)
        return n, _cbmc([h, '--unwind', '12', '--unwinding-assertions', '--bounds-check', '--pointer-check', '--trace'], 600)
    # every parameter count, with the default heap size and with an explicit one (`--heap-size`)
    jobs = [(n, None) for n in range(0, 8)] + [(n, 8) for n in range(0, 8)]
    with cf.ThreadPoolExecutor(max_workers=8) as ex:
        for n, (st, out, dt) in ex.map(one, jobs):
            r.obligations += 1
            r.cases += 1
            r.nontrivial += 1
            if st == 'ok':
                r.discharged += 1
            elif st == 'fail':
                failed = [f for f in re.findall(r'\] line \d+ (.*?): FAILURE', out)]
                vals = {}
                for m in re.finditer(r'denoted\[(\d+)l?\]=(-?\d+)', out):
                    vals[int(m.group(1))] = int(m.group(2))
                argc = re.findall(r'argc=(-?\d+)', out)
                args = [vals.get(i, 0) for i in range(n)]
                cex = {'input': 'n=%d argc=%s argv[1..]=%s' % (n, argc[-1] if argc else '?', args), 'what': '; '.join(failed[:3]), 'replay_cmd': None}
                cex.update(replay_driver(n, args, ddir))
                r.violations.append({'obligation': 'cbmc::driver%d::argument-contract' % n, 'kind': 'cbmc', 'what': '; '.join(failed[:3]), 'input': cex['input'],
                                     'verifier_output': '\n'.join(l for l in out.split('\n') if 'FAILURE' in l)[:2000], 'witness_class': '; '.join(failed[:1]),
                                     'counterexample': cex})
            else:
                raise InfraError('cbmc could not analyse the generated driver for n=%d:\n%s' % (n, out[-2000:]))
    r.samples = [{'cbmc_driver': 'driver%d.c' % n} for n in (0, 3, 7)]
    return r


def replay_driver(n, args, ddir):
    """compile the real generated driver with a stub asm_main that prints its parameters; run it on the counterexample"""
    bdir = os.path.join(VERIF, 'build', 'driver_replay')
    os.makedirs(bdir, exist_ok=True)
    stub = os.path.join(bdir, 'stub%d.c' % n)
    params = ''.join(', int64_t a%d' % i for i in range(1, n + 1))
    prints = ''.join('  printf("%%lld\\n", (long long)a%d);\n' % i for i in range(1, n + 1))
    with open(stub, 'w') as f:
        f.write('#include <stdint.h>\n#include <stdio.h>\nint asm_main(void *heap%s) asm("asm_main");\nint asm_main(void *heap%s) {\n%s  return 0;\n}\n' % (params, params, prints))
    exe = os.path.join(bdir, 'drv%d' % n)
    p = subprocess.run(['gcc', '-o', exe, os.path.join(ddir, 'target_scc', 'infrastructure', 'driver%d.c' % n), stub], capture_output=True, text=True)
    if p.returncode != 0:
        return {'replay': 'driver does not compile natively: ' + p.stderr[-500:]}
    r = subprocess.run([exe] + [str(a) for a in args], capture_output=True, text=True)
    got = r.stdout.split()
    want = [str(a) for a in args]
    return {'replay': 'real driver run with arguments %s passed %s to asm_main' % (want, got), 'replay_ok': got == want}

"""Auxiliary checks (native bounded contract checks, Kani, CBMC) and counterexample search / replay."""
import fcntl
import json
import os
import re
import subprocess
import sys
import time

VERIF = os.path.dirname(os.path.dirname(os.path.abspath(__file__)))
NATIVE = os.path.join(VERIF, 'native')
NATIVE_BIN = os.path.join(NATIVE, 'target', 'release', 'scc_native')


class InfraError(Exception):
    pass


class AuxResult:
    def __init__(self, name, level='bounded'):
        self.name = name
        self.level = level          # 'proof' (complete) or 'bounded'
        self.obligations = 0
        self.discharged = 0
        self.functions = []
        self.cases = 0
        self.nontrivial = 0
        self.bound = ''
        self.violations = []        # dicts with 'obligation', 'counterexample', ...
        self.samples = []
        self.assumptions = []
        self.cmds = []
        self.wall_s = 0.0

    def summary(self):
        return {'name': self.name, 'kind': 'bounded (never counted as proved)' if self.level != 'proof' else 'complete',
                'bound': self.bound, 'cases': self.cases, 'distinct_nontrivial': self.nontrivial,
                'functions': self.functions, 'wall_s': round(self.wall_s, 1)}


REGISTRY = {}


def register(name):
    def deco(f):
        REGISTRY[name] = f
        return f
    return deco


def run(name, prop, tier, seed):
    t0 = time.time()
    r = REGISTRY[name](prop, tier, seed)
    r.wall_s = time.time() - t0
    return r


# ---- native crate ---------------------------------------------------------------------------------
_built = False


def native_build():
    """(Re)build the native harness against /repo's current working tree (path dependencies)."""
    global _built
    if _built:
        return
    os.makedirs(os.path.join(VERIF, 'build'), exist_ok=True)
    lock = open(os.path.join(VERIF, 'build', '.native.lock'), 'w')
    fcntl.flock(lock, fcntl.LOCK_EX)
    try:
        env = dict(os.environ, CARGO_NET_OFFLINE='true')
        p = subprocess.run(['cargo', 'build', '--release', '--offline', '-q'], cwd=NATIVE, capture_output=True, text=True, env=env, timeout=1800)
        if p.returncode != 0:
            raise InfraError('native harness does not build against /repo (API of the crates changed?):\n' + p.stderr[-3000:])
        _built = True
    finally:
        fcntl.flock(lock, fcntl.LOCK_UN)
        lock.close()


def native_run(args, timeout=3600):
    native_build()
    cmd = [NATIVE_BIN] + args
    p = subprocess.run(cmd, capture_output=True, text=True, timeout=timeout)
    if p.returncode != 0:
        raise InfraError('native harness failed: %s\n%s' % (' '.join(cmd), p.stderr[-2000:]))
    try:
        return json.loads(p.stdout), ' '.join(cmd)
    except Exception:
        raise InfraError('native harness produced no JSON: ' + p.stdout[-500:])


def _native_result(name, sums, cmd, functions, backend_filter=None):
    r = AuxResult(name)
    r.cmds = ['cargo build --release --offline (in /verif/native, path-depends on /repo/lang/*) ; ' + cmd]
    r.functions = functions
    bounds = []
    for s in sums:
        if backend_filter and not s['check'].endswith('/' + backend_filter):
            continue
        r.cases += s['cases']
        r.nontrivial += s['nontrivial']
        bounds.append('%s: %s' % (s['check'], s['bound']))
        r.samples += [{'bounded_check': s['check'], 'case': x} for x in s['samples'][:2]]
        for v in s['violations']:
            v = dict(v)
            v['kind'] = 'native'
            v['counterexample'] = {'input': v.get('input'), 'what': v.get('what'), 'instructions': v.get('instructions'),
                                   'replay_cmd': cmd}
            v['witness_class'] = v.get('what', '')[:60]
            r.violations.append(v)
    r.bound = ' | '.join(bounds)
    r.assumptions = ['T5 token parametricity: data-movement code is checked on pairwise distinct random tokens',
                     'executable machine models /verif/native/src/{x86,a64,rv}.rs follow the same instruction tables as spec/isa_*.rs (T1)']
    return r


@register('native_moves')
def native_moves(prop, tier, seed):
    sums, cmd = native_run(['moves', '--tier', tier, '--seed', str(seed)])
    return _native_result('native_moves', sums, cmd,
                          ['axcut2backend::statements::substitute::Substitute::code_statement', 'axcut2backend::substitution::{transpose,code_exchange,code_weakening_contraction}',
                           'axcut2backend::parallel_moves::{parallel_moves,spanning_forest,spanning_tree,root_moves,tree_moves,delete_targets}',
                           '<backend>::parallel_moves::{contains_spill_edge,store_temporary,restore_temporary}', '<backend>::code::mov', '<backend>::memory::{erase_block,share_block_n}'])


@register('native_prints')
def native_prints(prop, tier, seed):
    sums, cmd = native_run(['prints', '--tier', tier, '--seed', str(seed)])
    return _native_result('native_prints', sums, cmd,
                          ['<x86_64|aarch64>::code::{print_i64,caller_save_registers_info,save_caller_save_registers,restore_caller_save_registers}',
                           '<x86_64|aarch64>::into_routine::{into_*_routine,preamble,setup,move_arguments,cleanup}', 'axcut2backend::coder::{compile,translate,assemble}',
                           'axcut2backend::statements::exit::Exit::code_statement'])


@register('native_heap')
def native_heap(prop, tier, seed):
    sums, cmd = native_run(['heap', '--tier', tier, '--seed', str(seed)])
    return _native_result('native_heap', sums, cmd,
                          ['<backend>::memory::{store,load,store_fields,load_fields,store_values,load_values,store_value,load_value,store_field,load_field,store_zeros,acquire_block,release_block,erase_block,share_block_n,skip_if_zero,if_zero_then_else}',
                           'axcut2backend::statements::substitute::Substitute::code_statement'])


def _emitters(prop, tier, seed, backend):
    sums, cmd = native_run(['emitters', '--backend', backend, '--seed', str(seed)])
    return _native_result('native_emitters/' + backend, sums, cmd, ['<%s>::code::Instructions::*' % backend], backend)


@register('native_emitters_x86')
def native_emitters_x86(prop, tier, seed):
    return _emitters(prop, tier, seed, 'x86_64')


@register('native_emitters_a64')
def native_emitters_a64(prop, tier, seed):
    return _emitters(prop, tier, seed, 'aarch64')


@register('native_emitters_rv')
def native_emitters_rv(prop, tier, seed):
    return _emitters(prop, tier, seed, 'rv64')


KANI = os.path.join(VERIF, 'kani')


def _kani(harnesses, name, complete):
    r = AuxResult(name, level='proof' if complete else 'bounded')
    env = dict(os.environ, CARGO_NET_OFFLINE='true')
    cmd = ['cargo', 'kani'] + sum([['--harness', h] for h in harnesses], [])
    t0 = time.time()
    p = subprocess.run(cmd, cwd=KANI, capture_output=True, text=True, env=env, timeout=3600)
    out = p.stdout + p.stderr
    r.cmds = ['(cd /verif/kani && CARGO_NET_OFFLINE=true ' + ' '.join(cmd) + ')']
    m = re.search(r'Complete - (\d+) successfully verified harnesses, (\d+) failures, (\d+) total', out)
    if not m:
        raise InfraError('cargo kani did not complete:\n' + out[-3000:])
    ok, bad, total = int(m.group(1)), int(m.group(2)), int(m.group(3))
    if total != len(harnesses):
        raise InfraError('kani ran %d harnesses, expected %d' % (total, len(harnesses)))
    r.obligations = total
    r.discharged = ok
    r.cases = total
    r.nontrivial = total
    r.functions = ['kani harness ' + h for h in harnesses]
    r.bound = 'loop-free harnesses over full-domain integers (complete)' if complete else 'fresh_label: 4 consecutive calls from the initial counter value (bounded)'
    r.samples = [{'kani_harness': h} for h in harnesses[:3]]
    r.assumptions = ['Kani 0.68 / CBMC 6.11 (CaDiCaL); no termination proof by Kani']
    if bad:
        # one violation per failing harness
        for blk in out.split('Checking harness ')[1:]:
            hname = blk.split('...')[0].strip()
            if 'VERIFICATION:- FAILED' in blk:
                fails = re.findall(r'Failed Checks: (.*)', blk)
                r.violations.append({'obligation': 'kani::%s' % hname, 'kind': 'kani', 'what': '; '.join(fails)[:500],
                                     'verifier_output': blk[-3000:], 'witness_class': hname,
                                     'counterexample': None})
    return r


@register('kani_bitkernels')
def kani_bitkernels(prop, tier, seed):
    return _kani(['halfword_bridge', 'not16_roundtrip'], 'kani_bitkernels', True)


@register('kani_fresh_label')
def kani_fresh_label(prop, tier, seed):
    return _kani(['fresh_label_increasing'], 'kani_fresh_label', False)


EMITTER_NAMES = ['add', 'sub', 'mul', 'div', 'rem', 'mov', 'load_immediate', 'load_label', 'add_and_jump', 'jump']


def emitter_of(fn):
    """Map a verified function id to the public emitter whose native contract exercises it."""
    base = fn.split('::')[-1].split('/')[0]
    if base.startswith('jump_label_if'):
        return base
    m = re.match(r'op(?:_commutative)?__(\w+)$', base)
    if m:
        return m.group(1)
    for suf in ('_to_register', '_to_spill'):
        if base.endswith(suf):
            return base[:-len(suf)]
    if base in ('move_to_register', 'move_from_register'):
        return 'mov'
    if base in ('compare',):
        return 'jump_label_if_less'
    if base in ('compare_immediate',):
        return 'jump_label_if_less_zero'
    if base in EMITTER_NAMES:
        return base
    return None


def backend_of(unit):
    if unit.startswith('x86'):
        return 'x86_64'
    if unit.startswith('a64'):
        return 'aarch64'
    if unit.startswith('rv'):
        return 'rv64'
    return None


def find_counterexample(prop, unit, fn, obligation, tier):
    """Search a concrete failing input for a rejected / undecided Verus obligation by running the real
    function natively against the executable form of its contract."""
    backend = backend_of(unit)
    if backend and unit.endswith('_memory'):
        try:
            sums, cmd = native_run(['heap', '--backend', backend, '--tier', 'quick'], timeout=900)
        except Exception:
            return None
        for s in sums:
            for v in s['violations']:
                return {'found_by': 'native heap audit of the real memory code', 'backend': backend, 'input': v.get('input'),
                        'what': v.get('what'), 'instructions': v.get('instructions'), 'replay_cmd': cmd}
        return None
    em = emitter_of(fn)
    if not backend or not em:
        return None
    try:
        sums, cmd = native_run(['emitters', '--backend', backend, '--only', em], timeout=600)
    except Exception:
        return None
    for s in sums:
        for v in s['violations']:
            return {'found_by': 'native contract replay of the real emitter', 'emitter': em, 'backend': backend,
                    'input': v.get('input'), 'what': v.get('what'), 'instructions': v.get('instructions'), 'replay_cmd': cmd}
    return None


def replay(prop, path):
    with open(path) as f:
        rep = json.load(f)
    print('property   : %s' % rep.get('property'))
    print('obligation : %s' % rep.get('obligation'))
    if rep.get('clause'):
        print('clause     : %s' % rep.get('clause'))
    if rep.get('source'):
        print('source     : %s' % rep.get('source'))
    cex = rep.get('counterexample')
    if rep.get('verifier_output'):
        print('--- verifier output when the violation was found ---')
        print(rep['verifier_output'])
    if cex and cex.get('replay_cmd'):
        print('--- replaying against the real code: %s' % cex['replay_cmd'])
        print('recorded input : %s' % cex.get('input'))
        print('recorded result: %s' % cex.get('what'))
        native_build()
        p = subprocess.run(cex['replay_cmd'].split(), capture_output=True, text=True)
        try:
            sums = json.loads(p.stdout)
        except Exception:
            print(p.stdout[-2000:], p.stderr[-2000:])
            return 2
        nv = 0
        for s in sums:
            for v in s['violations']:
                nv += 1
                print('STILL FAILS: %s | %s | %s' % (v.get('obligation'), v.get('input'), v.get('what')))
                for ins in (v.get('instructions') or [])[:40]:
                    print('    ' + ins)
        if nv == 0:
            print('the recorded input no longer fails on the current tree')
            return 0
        return 1
    print('no concrete input recorded (no-failing-input-found); re-run ./check %s to re-verify the obligation' % rep.get('property'))
    return 0

"""Auxiliary checks (native bounded contract checks, Kani, CBMC) and counterexample search / replay."""
import json
import os
import subprocess
import sys

VERIF = os.path.dirname(os.path.dirname(os.path.abspath(__file__)))


class AuxResult:
    def __init__(self, name, level='bounded'):
        self.name = name
        self.level = level          # 'proof' (complete) or 'bounded'
        self.obligations = 0
        self.discharged = 0
        self.functions = []
        self.cases = 0
        self.bound = ''
        self.violations = []        # dicts with 'obligation', 'counterexample', ...
        self.samples = []
        self.assumptions = []
        self.cmds = []
        self.wall_s = 0.0

    def summary(self):
        return {'name': self.name, 'kind': 'bounded (never counted as proved)', 'bound': self.bound,
                'cases': self.cases, 'functions': self.functions, 'wall_s': round(self.wall_s, 1)}


REGISTRY = {}


def register(name):
    def deco(f):
        REGISTRY[name] = f
        return f
    return deco


def run(name, prop, tier, seed):
    return REGISTRY[name](prop, tier, seed)


def find_counterexample(prop, unit, fn, obligation, tier):
    """Search a concrete failing input for a rejected Verus obligation by running the real function natively."""
    return None


def replay(prop, path):
    with open(path) as f:
        rep = json.load(f)
    print(json.dumps({k: rep[k] for k in rep if k not in ('verifier_output',)}, indent=1)[:4000])
    print(rep.get('verifier_output', ''))
    return 0

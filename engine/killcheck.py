#!/usr/bin/env python3
"""Kill check (thorough tier): are the contracts strong enough to notice small changes of the code?

For every contracted exec function of a unit, the *extracted text* (never /repo) is mutated with a few
syntactic operators and the unit is re-verified for that function only.  A mutant that still verifies
("survivor") points at a contract that does not pin down the mutated behaviour (or at an equivalent
mutant).  Survivors are reported in the evidence; they are never reported as violations.

usage: killcheck.py <unit> [max_mutants_per_function]
"""
import concurrent.futures as cf
import json
import os
import re
import subprocess
import sys

sys.path.insert(0, os.path.dirname(os.path.abspath(__file__)))
from extract import Unit, Emitter  # noqa: E402
from rustsrc import mask  # noqa: E402

VERIF = os.path.dirname(os.path.dirname(os.path.abspath(__file__)))


def function_regions(lines):
    """(fnid, first_body_line, last_body_line, [nested fn names]) for top-level marked functions"""
    res, stack, nested = [], [], []
    for i, ln in enumerate(lines):
        mb = re.search(r'//@@begin (\S+)', ln)
        me = re.search(r'//@@end (\S+)', ln)
        if mb:
            stack.append((mb.group(1), i))
        elif me and stack and stack[-1][0] == me.group(1):
            fid, a = stack.pop()
            if stack:
                nested.append(fid.split('/')[-1])
            else:
                res.append((fid, a, i, nested))
                nested = []
    return res


OPS = [
    # (name, regex, replacement function)
    ('swap-register-operands', re.compile(r'(Code::\w+\()\s*(\w+)\s*,\s*(\w+)(\s*[,)])'), lambda m: m.group(1) + m.group(3) + ', ' + m.group(2) + m.group(4) if m.group(2) != m.group(3) else None),
    ('add<->sub', re.compile(r'\bCode::(ADD|SUB)(\w*)\('), lambda m: 'Code::' + ('SUB' if m.group(1) == 'ADD' else 'ADD') + m.group(2) + '('),
    ('temp<->temp2', re.compile(r'\b(TEMP2|TEMP)\b'), lambda m: 'TEMP' if m.group(1) == 'TEMP2' else None),
    ('heap<->free', re.compile(r'\b(HEAP|FREE)\b'), lambda m: 'FREE' if m.group(1) == 'HEAP' else 'HEAP'),
    ('fst<->snd', re.compile(r'\b(Fst|Snd)\b'), lambda m: 'Snd' if m.group(1) == 'Fst' else 'Fst'),
    ('off-by-one', re.compile(r'(?<![\w.])(\d+)(?![\w.(])'), lambda m: str(int(m.group(1)) + 1) if int(m.group(1)) < 100 else None),
    ('negate-condition', re.compile(r'\bif (?!let\b)(?!!)([a-z_][\w.]*(?:\([^()]*\))?) (==|!=) '), lambda m: 'if %s %s ' % (m.group(1), '!=' if m.group(2) == '==' else '==')),
    ('jump-condition', re.compile(r'\bCode::(JEL|JNEL|JLL|JLEL|JGL|JGEL|BEQ|BNE|BLT|BLE|BGT|BGE)\('),
     lambda m: 'Code::' + {'JEL': 'JNEL', 'JNEL': 'JEL', 'JLL': 'JLEL', 'JLEL': 'JLL', 'JGL': 'JGEL', 'JGEL': 'JGL', 'BEQ': 'BNE', 'BNE': 'BEQ', 'BLT': 'BLE', 'BLE': 'BLT', 'BGT': 'BGE', 'BGE': 'BGT'}[m.group(1)] + '('),
    ('relational', re.compile(r' (<=|>=|<|>) (?=[\w(])'), lambda m: ' ' + {'<': '<=', '<=': '<', '>': '>=', '>=': '>'}[m.group(1)] + ' '),
    ('bool-literal', re.compile(r'\b(true|false)\b'), lambda m: 'false' if m.group(1) == 'true' else 'true'),
    ('drop-statement', re.compile(r'^\s*[a-z_][\w.]*\.(?:push|swap_remove|remove|insert|extend)\((?!Code::)[^;]*\);\s*$'), lambda m: ''),
    ('drop-push', re.compile(r'^\s*instructions\.push\(Code::(?!COMMENT)[^;]*\);\s*$'), lambda m: ''),
]


def mutants_for(lines, a, b, limit):
    """yield (description, new_lines) for mutants of the executable lines in (a, b)"""
    out = []
    body_started = False
    in_comment_stmt = False
    for i in range(a, b + 1):
        ln = lines[i]
        code = ln.split('//@@')[0]
        # statements with no effect on the emitted machine code are not mutated: Code::COMMENT pushes
        # (possibly spanning lines) and Vec::with_capacity hints
        if re.search(r'\bCOMMENT\s*[({]', code):
            in_comment_stmt = True
        if in_comment_stmt:
            if code.rstrip().endswith(';'):
                in_comment_stmt = False
            continue
        if 'with_capacity(' in code:
            continue
        # an `if` whose block holds nothing but a COMMENT push
        if re.match(r'\s*if .*\{\s*$', code) and i + 2 <= b and re.search(r'\bCOMMENT\s*[({]', lines[i + 1]):
            k = i + 1
            while k <= b and not lines[k].split('//@@')[0].rstrip().endswith(';'):
                k += 1
            if k + 1 <= b and lines[k + 1].split('//@@')[0].strip() == '}':
                continue
        if '//@@' in ln and '::' in ln.split('//@@')[1] and not ln.split('//@@')[1].startswith(('begin', 'end')):
            continue  # contract / proof line
        st = code.strip()
        if st.startswith('{'):
            body_started = True
        if not body_started or not st or st.startswith(('//', '#[', 'requires', 'ensures', 'invariant', 'decreases', 'proof')):
            continue
        mk = mask(code)
        for name, rx, rep in OPS:
            for m in rx.finditer(mk):
                # apply on the original text at the same span
                mo = rx.match(code, m.start()) if rx.pattern.startswith('^') is False else rx.match(code)
                mo = mo or m
                try:
                    r = rep(mo)
                except Exception:
                    r = None
                if r is None:
                    continue
                new = code[:mo.start()] + r + code[mo.end():]
                if new == code:
                    continue
                nl = list(lines)
                nl[i] = new + (' //@@' + ln.split('//@@')[1] if '//@@' in ln else '')
                out.append(('%s at generated line %d: `%s` -> `%s`' % (name, i + 1, st[:70], new.strip()[:70]), nl))
                break  # one mutant per operator per line
    # spread over the function: take evenly
    if len(out) > limit:
        step = len(out) / float(limit)
        out = [out[int(k * step)] for k in range(limit)]
    return out


# survivors that are equivalent by inspection: (regex on the mutant description, reason)
EQUIVALENT = [
    (re.compile(r'relational .*`if registers_to_push_count > 0 \{` -> `if registers_to_push_count >= 0'), 'for a count of 0 the block only adds the no-op `ADD/SUB SP, SP, #0`'),
    (re.compile(r'relational .*rest_length = if '), 'at the boundary (length == capacity) both branches give 0'),
    (re.compile(r'.*`if free_fields > 0 \{`'), 'guards a COMMENT only'),
    (re.compile(r'relational .*`assert!\('), 'weakened capacity assert!: under the precondition of the contract (the bound the call sites guarantee) the assertion is unreachable either way'),
    (re.compile(r'relational .*`while \w+ < [\w.]+\.len\(\) && \w+ < '), 'loop header generated by rule R6 for .take(K): with K <= len the first conjunct is implied (K > len is an index-out-of-bounds obligation and is killed)'),
    (re.compile(r'swap-register-operands .*Code::(BEQ|BNE)\('), 'BEQ/BNE compare for (in)equality: operand order is immaterial'),
    (re.compile(r'off-by-one .*unset_halfwords = 0'), 'only biases the MOVZ-vs-MOVN choice; both encodings load the same value (cost heuristic, no property)'),
]


def explain(desc, unit='', fid=''):
    if unit.endswith('_memory') and fid.endswith('load_immediate'):
        return ('re-verified in the memory unit for small immediates only (call site passes 0); the branch for larger immediates is '
                'outside this precondition and is pinned by the full contract in the *_code unit')
    for rx, why in EQUIVALENT:
        if rx.search(desc):
            return why
    return None


def verify(path, fname):
    short = fname.split('/')[0]  # 'Backend::div' for methods, 'div' for free functions (exact match wins)
    cmd = ['verus', path, '--rlimit', '30', '--verify-root', '--verify-function', short]
    try:
        p = subprocess.run(cmd, capture_output=True, text=True, timeout=900)
    except subprocess.TimeoutExpired:
        return 'timeout'
    out = p.stdout + p.stderr
    m = re.search(r'verification results:: (\d+) verified, (\d+) errors', out)
    if not m:
        return 'killed(compile)'
    if int(m.group(1)) + int(m.group(2)) == 0:
        return 'unselected'
    return 'survived' if int(m.group(2)) == 0 else 'killed'


def run_unit(unit, limit=4, workers=14):
    """kill check of one unit on the text extracted from /repo NOW; cached by content hash (several
    property checks of one thorough run share units)"""
    import fcntl
    import hashlib
    u = Unit(os.path.join(VERIF, 'contracts', unit + '.vc'))
    em = Emitter(u, tier='thorough')
    text = em.build()
    # no canary in mutants (it always fails)
    text = text.replace('proof fn verif_canary()\n    ensures false, //@@verif_canary::post#1', 'proof fn verif_canary()\n    ensures true,')
    lines = text.split('\n')
    bdir = os.path.join(VERIF, 'build', 'kill', unit)
    os.makedirs(bdir, exist_ok=True)
    key = hashlib.sha256((text + '\0%d\0' % limit + open(os.path.abspath(__file__)).read()).encode()).hexdigest()[:24]
    cache = os.path.join(bdir, 'result_%s.json' % key)
    lock = open(os.path.join(bdir, '.lock'), 'w')
    fcntl.flock(lock, fcntl.LOCK_EX)
    try:
        if os.path.exists(cache):
            with open(cache) as f:
                r = json.load(f)
            r['from_cache_of_this_tree'] = True
            return r
        r = _run_unit(unit, limit, workers, em, text, lines, bdir)
        with open(cache, 'w') as f:
            json.dump(r, f)
        return r
    finally:
        fcntl.flock(lock, fcntl.LOCK_UN)
        lock.close()


def _run_unit(unit, limit, workers, em, text, lines, bdir):
    import time
    t0 = time.time()
    jobs = []
    contracted = {f['id'] for f in em.functions if not f['external_body'] and f['ensures'] > 0}
    nested_of = {}
    for fid, a, b, nested in function_regions(lines):
        nested_of[fid] = nested
        if fid not in contracted:
            continue
        for k, (desc, nl) in enumerate(mutants_for(lines, a, b, limit)):
            p = os.path.join(bdir, '%s_%d.rs' % (re.sub(r'\W+', '_', fid), k))
            with open(p, 'w') as f:
                f.write('\n'.join(nl))
            jobs.append((fid, desc, p))
    # baseline: the unmutated text must verify for every selected function (else a 'kill' means nothing)
    base = os.path.join(bdir, '_baseline.rs')
    with open(base, 'w') as f:
        f.write(text)
    fids = sorted({j[0] for j in jobs})
    with cf.ThreadPoolExecutor(max_workers=workers) as ex:
        def base_ok(fid):
            v = verify(base, fid)
            for nm in nested_of.get(fid, []):
                if v == 'survived':
                    v2 = verify(base, nm)
                    v = v if v2 == 'unselected' else v2
            return v
        basev = dict(zip(fids, ex.map(base_ok, fids)))
    bad = {fid: v for fid, v in basev.items() if v != 'survived'}
    jobs = [j for j in jobs if j[0] not in bad]
    res = {'unit': unit, 'mutants': len(jobs), 'killed': 0, 'killed_by_type_error': 0, 'survivors': [], 'equivalent_survivors': [], 'timeouts': 0,
           'functions': len(fids) - len(bad), 'skipped_functions': bad}
    def two_stage(j):
        # nested functions are separate verification units that `--verify-function <outer>` does not select
        v = verify(j[2], j[0])
        for nm in nested_of.get(j[0], []):
            if v == 'survived':
                v2 = verify(j[2], nm)
                v = v if v2 == 'unselected' else v2   # an external_body nested function has nothing to verify
        return v
    with cf.ThreadPoolExecutor(max_workers=workers) as ex:
        for (fid, desc, p), v in zip(jobs, ex.map(two_stage, jobs)):
            if v == 'killed(compile)':
                res['killed_by_type_error'] += 1
            elif v == 'killed':
                res['killed'] += 1
            elif v == 'timeout':
                res['timeouts'] += 1
            else:
                why = explain(desc, unit, fid)
                if why:
                    res['equivalent_survivors'].append({'function': fid, 'mutant': desc, 'why_equivalent': why})
                else:
                    res['survivors'].append({'function': fid, 'mutant': desc})
            try:
                os.remove(p)
            except OSError:
                pass
    res['wall_s'] = round(time.time() - t0, 1)
    return res


def main():
    unit = sys.argv[1]
    limit = int(sys.argv[2]) if len(sys.argv) > 2 else 4
    print(json.dumps(run_unit(unit, limit), indent=1))


if __name__ == '__main__':
    main()

#!/usr/bin/env python3
"""Replay behaviour-preserving changes (/verif/harmless/<group>-<k>/patch.diff) on scratch copies and record what the
checks say: exit 0 (fine), exit 2 (undecided: lost anchor etc., acceptable) or exit 1 (FALSE ALARM - must be analysed).
usage: run_harmless.py [-j N] <name> ...   e.g. C06-1"""
import concurrent.futures as cf
import json, os, re, subprocess, sys, time
VERIF = os.path.dirname(os.path.dirname(os.path.abspath(__file__)))
H = os.path.join(VERIF, 'harmless')
PROPS = {'C05': ['C05'], 'C06': ['C06', 'C14'], 'C07': ['C07', 'C14'], 'C08': ['C08', 'C09', 'C11'], 'C20': ['C20', 'C14']}
args = sys.argv[1:]
jobs = 5
if args and args[0] == '-j':
    jobs = int(args[1]); args = args[2:]
by_group = {}
for s in args:
    by_group.setdefault(s.split('-')[0], []).append(s)
head = subprocess.run(['git', '-C', '/repo', 'rev-parse', 'HEAD'], capture_output=True, text=True).stdout.strip()


def sh(cmd, **kw):
    return subprocess.run(cmd, shell=True, capture_output=True, text=True, **kw)


def prepare(g):
    wt, vc = '/tmp/wt_' + g, '/tmp/vc_' + g
    sh('git -C %s checkout -q -- . && git -C %s checkout -q --detach %s' % (wt, wt, head))
    sh('mkdir -p %s && rsync -a --delete --exclude build --exclude target --exclude replays --exclude evidence --exclude .git %s/ %s/' % (vc, VERIF, vc))
    sh("grep -rlI '/repo' %s --exclude-dir=seeded --exclude-dir=harmless --exclude-dir=target --exclude='*.md' --exclude='*.json' --exclude='*.jsonl' | xargs sed -i 's#/repo#%s#g'" % (vc, wt))


def run_group(g):
    wt, vc = '/tmp/wt_' + g, '/tmp/vc_' + g
    out = []
    for name in by_group[g]:
        p = os.path.join(H, name)
        sh('git -C %s checkout -q -- .' % wt)
        a = sh('git -C %s apply %s' % (wt, os.path.join(p, 'patch.diff')))
        if a.returncode != 0:
            out.append((name, 'patch does not apply', {}))
            continue
        res = {}
        try:
            for prop in PROPS[g]:
                r = subprocess.run(['./check', prop, '--tier', 'quick'], capture_output=True, text=True, cwd=vc, timeout=5400)
                so = r.stdout + r.stderr
                res[prop] = {'exit_code': r.returncode,
                             'violations': re.findall(r'^VIOLATION property=\S+ replay=\S+ obligation=(.*)$', so, re.M),
                             'infra_errors': [x[:400] for x in re.findall(r'^INFRA-ERROR: (.*)$', so, re.M)]}
        finally:
            sh('git -C %s checkout -q -- .' % wt)
        agent = {}
        try:
            agent = json.load(open(os.path.join(p, 'agent_meta.json')))
        except Exception:
            pass
        worst = max(v['exit_code'] for v in res.values())
        verdict = 'FALSE-ALARM' if any(v['exit_code'] == 1 for v in res.values()) else ('undecided (exit 2)' if worst == 2 else 'no alarm (exit 0)')
        json.dump({'kind': agent.get('kind', ''), 'summary': agent.get('summary', ''), 'why_behaviour_preserving': agent.get('why_behaviour_preserving', ''),
                   'files_changed': agent.get('files_changed', []), 'checks': res, 'verdict': verdict}, open(os.path.join(p, 'meta.json'), 'w'), indent=1)
        out.append((name, verdict, res))
        print(name, verdict, {k: (v['exit_code'], v['violations'][:2], [i[:120] for i in v['infra_errors'][:1]]) for k, v in res.items()}, flush=True)
    return out


for g in sorted(by_group):
    prepare(g)
print('snapshots ready', flush=True)
with cf.ThreadPoolExecutor(max_workers=jobs) as ex:
    list(ex.map(run_group, sorted(by_group)))
# table
rows = []
for d in sorted(os.listdir(H)):
    m = os.path.join(H, d, 'meta.json')
    if os.path.exists(m):
        j = json.load(open(m))
        rows.append('| %s | %s | %s | %s |' % (d, j['verdict'], j.get('kind', '')[:60], (j.get('summary') or '')[:200].replace('|', '/').replace('\n', ' ')))
with open(os.path.join(H, 'RESULTS.md'), 'w') as f:
    f.write('# Behaviour-preserving changes and what the checks say\n\nProduced by independent sub-agents (refactorings that keep the property, compile and pass the tests); replayed with\n`engine/run_harmless.py`. An exit 1 here would be a false alarm.\n\n| change | verdict | kind | summary |\n|---|---|---|---|\n' + '\n'.join(rows) + '\n')

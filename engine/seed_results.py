#!/usr/bin/env python3
"""Rebuild seeded/RESULTS.md from the meta.json files written by run_seeds.py / run_seeds_par.py."""
import json, os
VERIF = os.path.dirname(os.path.dirname(os.path.abspath(__file__)))
S = os.path.join(VERIF, 'seeded')
rows = []
for d in sorted(os.listdir(S), key=lambda x: (x.split('-')[0], int(x.split('-')[1]) if '-' in x and x.split('-')[1].isdigit() else 0)):
    m = os.path.join(S, d, 'meta.json')
    if not os.path.exists(m):
        continue
    j = json.load(open(m))
    v = 'DETECTED' if j.get('detected') else ('MISSED' if j.get('exit_code') == 0 else 'EXIT2')
    rows.append('| %s | %s | %s | %s |' % (d, v, '<br>'.join(j.get('violations', [])[:4]), (j.get('summary') or '')[:160].replace('|', '/').replace('\n', ' ')))
with open(os.path.join(S, 'RESULTS.md'), 'w') as f:
    f.write('# Seeded changes and the checks that catch them\n\nEach row: a change made by an independent sub-agent that breaks the property, compiles and passes the existing tests\n(confirmed with engine/confirm_seed.sh); verdict of `./check <prop> --tier quick` with the change applied.\nSeeds -1..-3: round 1; -4, -5: round 2 (different locations).\n\n| seed | verdict | obligations raising the alarm | change |\n|---|---|---|---|\n')
    f.write('\n'.join(rows) + '\n')
print(len(rows), 'seeds;', sum('DETECTED' in r for r in rows), 'detected')

#!/usr/bin/env python3
"""Mechanical extractor: /repo source text + contracts/<unit>.vc  ->  build/<unit>.rs (one Verus file).

The executable text of every extracted item is copied byte-for-byte from /repo's working tree; the
only rewrites are the fixed rules R1..R7 documented in DESIGN.md section 3.1, each of which is
logged in the returned `rules` list.  Ghost text (contracts) is spliced only
  (a) between a function's signature and its body,
  (b) between a loop header and the loop's body brace,
  (c) at the very end of a function body (proof block).
Every spliced line carries a marker comment `//@@<fn-id>::<kind>#<k>` so that a verifier diagnostic
can be mapped back to a named obligation.
"""
import os
import re
import sys

sys.path.insert(0, os.path.dirname(os.path.abspath(__file__)))
VERIF_ROOT = os.path.dirname(os.path.dirname(os.path.abspath(__file__)))
from rustsrc import Source, Item, ExtractError, mask, match_close, loop_headers, split_args  # noqa: E402

SECTION_KEYS = ('desugar_position', 'loopafter', 'desugar_any', 'props+', 'loopensures', 'enumerate_loop', 'ghost_begin', 'ghost_at', 'derive-', 'slow', 'loopproof', 'proof_begin', 'assumed_from', 'props', 'requires', 'ensures', 'decreases', 'invariant', 'loopdec', 'proof', 'returns', 'attr',
                'derive+', 'nested', 'specialize', 'novac', 'external_body', 'rename', 'recommends', 'loopiter',
                'opens_invariants', 'no_unwind')


class Contract:
    def __init__(self):
        self.requires = []      # list of clause strings
        self.ensures = []
        self.recommends = []
        self.decreases = []
        self.invariants = {}    # loop ordinal -> list of clauses
        self.loopdec = {}       # loop ordinal -> list of clauses
        self.loopensures = {}   # loop ordinal -> list of clauses (loops with `break`)
        self.loopiter = {}      # loop ordinal -> name for `for x in NAME: expr`
        self.proof = None       # text
        self.proof_begin = None
        self.ghost_begin = None   # ghost `let` statements at the very beginning of the body
        self.ghost_at = {}        # (callee, ordinal, 'before'|'after') -> ghost statements next to that call statement
        self.loopafter = {}       # loop ordinal -> proof text placed right after the loop
        self.loopproof = {}     # loop ordinal -> proof text placed at the beginning of the loop body
        self.returns = None
        self.attrs = []
        self.derive_add = []
        self.derive_del = []
        self.nested = {}        # name -> Contract
        self.specialize = None  # (dict param->fn, newname)
        self.novac = False
        self.external_body = False
        self.rename = None
        self.no_unwind = False
        self.assumed_from = None
        self.enumerate_loops = []   # R6: loop ordinals to desugar from `.iter().enumerate()`
        self.desugar_any = False    # R13: `E.iter().any(|x| C)` -> short-circuiting index loop
        self.desugar_position = False  # R14: `E.iter().position(|x| C).unwrap_or_else(|| P)` -> index loop
        self.slow = False       # verified in the thorough tier only (assumed, external_body, in the quick tier)
        self.props = None       # property ids this item's semantic clauses serve (None: unit default)
        self.props_add = []     # further properties whose units use this contract as an assumption (`@include f props+ ..`)

    def n_clauses(self):
        n = len(self.requires) + len(self.ensures) + len(self.decreases)
        n += sum(len(v) for v in self.invariants.values()) + sum(len(v) for v in self.loopdec.values())
        for c in self.nested.values():
            n += c.n_clauses()
        return n


class ItemSpec:
    def __init__(self, alias, kind, impl_header, name, line):
        self.alias, self.kind, self.impl_header, self.name = alias, kind, impl_header, name
        self.contract = Contract()
        self.line = line

    @property
    def ident(self):
        base = self.contract.rename or (self.contract.specialize[1] if self.contract.specialize else self.name)
        return base


class Unit:
    def __init__(self, path):
        self.path = path
        self.name = None
        self.root = '/repo/lang'
        self.srcs = {}        # alias -> relative path
        self.specs = []       # spec files (relative to /verif)
        self.verbatim = []    # raw text blocks
        self.uses = []
        self.uses_inner = []
        self.broadcasts = []
        self.props = []         # default property tags
        self.encprops = []      # property tags of encodability clauses
        self.defines = {}
        self.items = []
        self.expected_fail = []  # fn ids expected to fail (canary only; known findings are handled by the runner)
        self.parse()

    def load_lines(self, path, assumed, home=None):
        """Read a contract file, expanding `@include file [assumed]` in place. Lines of an assumed include are
        prefixed so that every @item in them is emitted external_body (contract assumed here, proved elsewhere)."""
        with open(path) as f:
            raw = f.read().split('\n')
        out = []
        for ln in raw:
            st = ln.strip()
            if st.startswith('@include'):
                parts = st.split()
                sub = os.path.join(VERIF_ROOT, parts[1])
                sub_assumed = assumed or (len(parts) > 2 and parts[2] == 'assumed')
                sub_lines = self.load_lines(sub, sub_assumed, home=parts[1])
                if 'props+' in parts and not sub_assumed:
                    # the contracts of this file are assumptions of units of further properties: a failure counts for them too
                    extra = ' '.join(parts[parts.index('props+') + 1:])
                    tagged = []
                    for sl in sub_lines:
                        tagged.append(sl)
                        if sl.strip().startswith('@item'):
                            tagged.append('  props+ ' + extra)
                    sub_lines = tagged
                out += sub_lines
            elif st.startswith('@item') and assumed:
                out.append(ln)
                out.append('  assumed_from %s' % (home or path))
            else:
                out.append(ln)
        return out

    def parse(self):
        lines = self.load_lines(self.path, False)
        i = 0
        cur = None          # current ItemSpec
        cstack = []         # contract stack for nested
        section = None      # (key, arg)
        clause_indent = None
        buf = None

        def target():
            return cstack[-1]

        def flush_clause():
            nonlocal buf
            if buf is None or section is None:
                buf = None
                return
            text = '\n'.join(buf).rstrip()
            buf = None
            if not text.strip():
                return
            for _ in range(3):
                for dk in sorted(self.defines, key=len, reverse=True):
                    text = text.replace('$' + dk, self.defines[dk])
            key, arg = section
            c = target()
            if key == 'proof':
                c.proof = (c.proof + '\n' if c.proof else '') + text
                return
            if key == 'loopafter':
                c.loopafter[arg] = (c.loopafter.get(arg, '') + '\n' if c.loopafter.get(arg) else '') + text
                return
            if key == 'loopproof':
                c.loopproof[arg] = (c.loopproof.get(arg, '') + '\n' if c.loopproof.get(arg) else '') + text
                return
            if key == 'ghost_begin':
                c.ghost_begin = (c.ghost_begin + '\n' if c.ghost_begin else '') + text
                return
            if key == 'ghost_at':
                c.ghost_at[arg] = (c.ghost_at[arg] + '\n' if c.ghost_at.get(arg) else '') + text
                return
            if key == 'proof_begin':
                c.proof_begin = (c.proof_begin + '\n' if c.proof_begin else '') + text
                return
            if not text.rstrip().endswith(','):
                text = text.rstrip() + ','
            if key == 'requires':
                c.requires.append(text)
            elif key == 'ensures':
                c.ensures.append(text)
            elif key == 'recommends':
                c.recommends.append(text)
            elif key == 'decreases':
                c.decreases.append(text)
            elif key == 'invariant':
                c.invariants.setdefault(arg, []).append(text)
            elif key == 'loopdec':
                c.loopdec.setdefault(arg, []).append(text)
            elif key == 'loopensures':
                c.loopensures.setdefault(arg, []).append(text)

        while i < len(lines):
            raw = lines[i]
            line = raw.strip()
            i += 1
            if line.startswith('@'):
                flush_clause()
                section = None
                parts = line.split()
                d = parts[0]
                if d == '@unit':
                    self.name = parts[1]
                elif d == '@root':
                    self.root = parts[1]
                elif d == '@src':
                    self.srcs[parts[1]] = parts[2]
                elif d == '@spec':
                    self.specs.append(parts[1])
                elif d == '@props':
                    self.props = parts[1:]
                elif d == '@encprops':
                    self.encprops = parts[1:]
                elif d == '@define':
                    self.defines[parts[1]] = line.split(None, 2)[2]
                elif d == '@broadcast':
                    self.broadcasts.append(parts[1])
                elif d == '@use_inner':
                    self.uses_inner.append(line[len('@use_inner'):].strip())
                elif d == '@use':
                    self.uses.append(line[len('@use'):].strip())
                elif d == '@verbatim':
                    blk = []
                    while i < len(lines) and lines[i].strip() != '@end':
                        blk.append(lines[i])
                        i += 1
                    i += 1
                    self.verbatim.append('\n'.join(blk))
                elif d == '@item':
                    m = re.match(r'@item\s+(\w+)\s+(\w+)\s+(?:"([^"]*)"\s*)?(\S+)?\s*$', line)
                    if not m:
                        raise ExtractError('%s:%d: bad @item line' % (self.path, i))
                    cur = ItemSpec(m.group(1), m.group(2), m.group(3), m.group(4) or m.group(3), i)
                    self.items.append(cur)
                    cstack = [cur.contract]
                elif d == '@end':
                    pass
                else:
                    raise ExtractError('%s:%d: unknown directive %s' % (self.path, i, d))
                continue
            if cur is None:
                continue
            in_proof = section is not None and section[0] in ('proof', 'proof_begin', 'loopproof', 'loopafter', 'ghost_begin', 'ghost_at')
            if not line or ((line == '#' or line.startswith('# ')) and (not in_proof or not raw.startswith(' '))):
                # a `# ...` line in column 0 is a comment of the contract file even inside proof text
                if in_proof and buf is not None and raw.startswith(' '):
                    buf.append(raw)
                continue
            first = line.split()[0]
            indent = len(raw) - len(raw.lstrip())
            is_key = first in SECTION_KEYS and (section is None or section[0] not in ('proof', 'proof_begin', 'loopproof', 'loopafter', 'ghost_begin', 'ghost_at') or indent <= 2)
            if is_key and (clause_indent is None or indent < clause_indent or section is None or section[0] in ('proof', 'proof_begin', 'loopproof', 'loopafter', 'ghost_begin', 'ghost_at')):
                flush_clause()
                rest = line[len(first):].strip()
                c = target()
                if first in ('requires', 'ensures', 'decreases', 'recommends'):
                    section = (first, None)
                    clause_indent = None
                elif first in ('invariant', 'loopdec', 'loopensures'):
                    section = (first, int(rest))
                    clause_indent = None
                elif first in ('proof', 'proof_begin', 'ghost_begin'):
                    section = (first, None)
                    clause_indent = None
                    buf = []
                elif first == 'loopafter':
                    section = ('loopafter', int(rest))
                    clause_indent = None
                    buf = []
                elif first == 'loopproof':
                    section = ('loopproof', int(rest))
                    clause_indent = None
                    buf = []
                elif first == 'ghost_at':
                    # ghost_at <callee>[#k] before|after : ghost statements next to the k-th statement calling <callee>
                    m = re.match(r'("[^"]+"|[\w:.]+)(?:#(\d+))?\s+(before|after|blockend)$', rest)
                    if not m:
                        raise ExtractError('%s:%d: bad ghost_at line' % (self.path, i))
                    section = ('ghost_at', (m.group(1), int(m.group(2) or 1), m.group(3)))
                    clause_indent = None
                    buf = []
                elif first == 'returns':
                    c.returns = rest
                    section = None
                elif first == 'props':
                    c.props = rest.split()
                elif first == 'props+':
                    c.props_add += rest.split()
                    section = None
                elif first == 'assumed_from':
                    c.assumed_from = rest
                    section = None
                elif first == 'attr':
                    c.attrs.append(rest)
                    section = None
                elif first == 'derive-':
                    c.derive_del += rest.replace(',', ' ').split()
                    section = None
                elif first == 'derive+':
                    c.derive_add += rest.replace(',', ' ').split()
                    section = None
                elif first == 'nested':
                    # nested contract: applies until the next `nested`/`@item`; `nested ..` pops back to the parent
                    if rest == '..':
                        cstack = cstack[:1]
                    else:
                        nc = Contract()
                        cstack[0].nested[rest] = nc
                        cstack = [cstack[0], nc]
                    section = None
                elif first == 'specialize':
                    m = re.match(r'(.*)\s+as\s+(\w+)$', rest)
                    mp = dict(kv.split('=') for kv in m.group(1).split())
                    c.specialize = (mp, m.group(2))
                    section = None
                elif first == 'novac':
                    c.novac = True
                    section = None
                elif first == 'slow':
                    c.slow = True
                    section = None
                elif first == 'enumerate_loop':
                    c.enumerate_loops.append(int(rest))
                    section = None
                elif first == 'desugar_any':
                    c.desugar_any = True
                    section = None
                elif first == 'desugar_position':
                    c.desugar_position = True
                    section = None
                elif first == 'no_unwind':
                    c.no_unwind = True
                    section = None
                elif first == 'external_body':
                    c.external_body = True
                    section = None
                elif first == 'rename':
                    c.rename = rest
                    section = None
                elif first == 'loopiter':
                    k, nm = rest.split()
                    c.loopiter[int(k)] = nm
                    section = None
                continue
            if section is None:
                raise ExtractError('%s:%d: text outside a section: %s' % (self.path, i, line))
            if section[0] in ('proof', 'proof_begin', 'loopproof', 'loopafter', 'ghost_begin', 'ghost_at'):
                buf.append(raw)
                continue
            if clause_indent is None:
                clause_indent = indent
            if indent <= clause_indent:
                flush_clause()
                buf = [raw]
            else:
                if buf is None:
                    buf = []
                buf.append(raw)
        flush_clause()
        if not self.name:
            raise ExtractError(self.path + ': missing @unit')


def strip_docs(text):
    """Remove `///` and plain `//` comment-only lines (documentation) - comments carry no semantics."""
    out = []
    for ln in text.split('\n'):
        s = ln.strip()
        if s.startswith('///') or s.startswith('//!'):
            continue
        out.append(ln)
    return '\n'.join(out)


def mark(lines, tag):
    return '\n'.join('%s //@@%s' % (ln, tag) if ln.strip() else ln for ln in lines.split('\n'))


def clause_block(keyword, clauses, fnid, kind, indent='    '):
    """Render `keyword` + clauses, each clause line tagged with its obligation marker."""
    if not clauses:
        return ''
    out = [indent + keyword]
    for k, cl in enumerate(clauses):
        ls = cl.split('\n')
        base = min(len(l) - len(l.lstrip()) for l in ls if l.strip())
        body = '\n'.join(indent + '    ' + l[base:] for l in ls)
        out.append(mark(body, '%s::%s#%d' % (fnid, kind, k + 1)))
    return '\n'.join(out) + '\n'


class Emitter:
    def __init__(self, unit, verif_root='/verif', tier='thorough'):
        self.unit = unit
        self.tier = tier
        self.verif_root = verif_root
        self.sources = {}
        self.rules = set()
        self.functions = []   # dicts: id, src, line, n_requires, n_ensures, ...
        self.assumed = []     # external_body fns etc
        self.special_calls = []  # (oldname, [args...], newname)

    def src(self, alias):
        if alias not in self.sources:
            if alias not in self.unit.srcs:
                raise ExtractError('unknown source alias ' + alias)
            p = os.path.join(self.unit.root, self.unit.srcs[alias])
            if not os.path.exists(p):
                raise ExtractError('source file missing: ' + p)
            self.sources[alias] = Source(p)
        return self.sources[alias]

    # ---- function text transformation -------------------------------------------------------
    def render_fn(self, text, contract, fnid, top=True):
        """text: full fn item text (attrs + signature + body). Returns annotated text."""
        masked = mask(text)
        m = re.search(r'\bfn\s+\w+', masked)
        par = masked.find('(', m.end())
        parc = match_close(masked, par)
        brace = masked.find('{', parc)
        close = match_close(masked, brace)
        head = text[:brace].rstrip()
        # R10: Verus rejects wildcard parameters `_: T`; an unused parameter is given a name
        if re.search(r'[(,]\s*_\s*:', head[par:]):
            cnt = [0]

            def nm(mm):
                cnt[0] += 1
                return mm.group(1) + '_unused%d:' % cnt[0]
            head = head[:par] + re.sub(r'([(,]\s*)_\s*:', nm, head[par:])
            self.rules.add('R10')
        body = text[brace:close + 1]
        tail = text[close + 1:]
        if contract.returns:
            mm = re.search(r'->\s*([^{]+?)\s*$', head[parc:])
            if not mm:
                raise ExtractError('%s: `returns` given but no return type' % fnid)
            a = parc + mm.start()
            head = head[:a] + '-> (%s: %s)' % (contract.returns, mm.group(1).strip())
            self.rules.add('R1')
        # body: loops, nested fns, proof tail
        body = self.render_body(body, contract, fnid)
        spec = ''
        spec += clause_block('requires', contract.requires, fnid, 'pre')
        spec += clause_block('recommends', contract.recommends, fnid, 'rec')
        spec += clause_block('ensures', contract.ensures, fnid, 'post')
        spec += clause_block('decreases', contract.decreases, fnid, 'dec')
        if contract.no_unwind:
            spec += '    no_unwind\n'
        attrs = ''.join('    %s\n' % a for a in contract.attrs)
        if contract.external_body:
            attrs += '    #[verifier::external_body]\n'
        begin = '//@@begin %s\n' % fnid
        # attributes must precede the item: put ours right before the fn keyword line
        kwline = head.rfind('\n', 0, m.start()) + 1
        head = head[:kwline] + attrs + head[kwline:]
        return begin + head + '\n' + spec + body + '//@@end %s' % fnid + tail

    def desugar_enumerate(self, body, k, fnid):
        """R6: `for (i, x) in E.iter().enumerate() { B }`  ->  `let mut i: usize = 0; while i < E.len() { let x = &E[i]; B  i += 1; }`
        (only when B contains no `continue`; `break` keeps its meaning)."""
        masked = mask(body)
        loops = loop_headers(body, masked)
        if k > len(loops):
            raise ExtractError('%s: enumerate_loop %d but only %d loops' % (fnid, k, len(loops)))
        kw, br, kind = loops[k - 1]
        header = body[kw:br]
        mm = re.match(r'for\s*\(\s*(\w+)\s*,\s*(\w+)\s*\)\s+in\s+(.+?)\.iter\(\)\s*(?:\.take\((.+)\)\s*)?\.enumerate\(\)\s*$', header.strip(), re.S)
        if kind == 'for' and not mm:
            # R12: `for x in E.iter().skip(K) { B }`        -> `let mut index_k: usize = K; while index_k < E.len() { let x = &E[index_k]; B  index_k += 1; }`
            #      `for x in E.iter().skip(K).rev() { B }`  -> `let mut index_k: usize = E.len(); while index_k > K { index_k -= 1; let x = &E[index_k]; B }`
            ms = re.match(r'for\s+(\w+)\s+in\s+(.+?)\.iter\(\)\s*\.skip\((.+?)\)\s*(\.rev\(\)\s*)?$', header.strip(), re.S)
            me = re.match(r'for\s*\(\s*(\w+)\s*,\s*(\w+)\s*\)\s+in\s+(.+?)\.iter\(\)\s*\.skip\((.+?)\)\s*\.enumerate\(\)\s*(\.rev\(\)\s*)?$', header.strip(), re.S)
            if me:
                # R12 (enumerated): `for (o, x) in E.iter().skip(K).enumerate() { B }`
                #     -> `let mut o: usize = 0; while o < E.len() - K (K < E.len()) { let x = &E[K + o]; B  o += 1; }`
                # `.enumerate().rev()` counts o down from E.len() - K (exclusive) to 0
                o, x, e, sk, rev = me.group(1), me.group(2), ' '.join(me.group(3).split()), ' '.join(me.group(4).split()), me.group(5)
                close = match_close(masked, br)
                if re.search(r'\bcontinue\b', masked[br + 1:close]):
                    raise ExtractError('%s: loop %d contains `continue` (R12 not applicable)' % (fnid, k))
                if rev:
                    new = ('let mut %s: usize = if %s.len() > %s { %s.len() - %s } else { 0 };\n    while %s > 0 {\n        %s -= 1;\n        let %s = &%s[%s + %s];'
                           % (o, e, sk, e, sk, o, o, x, e, sk, o) + body[br + 1:close].rstrip() + '\n    }')
                else:
                    new = ('let mut %s: usize = 0;\n    while %s < %s.len() && %s < %s.len() - %s {\n        let %s = &%s[%s + %s];'
                           % (o, sk, e, o, e, sk, x, e, sk, o) + body[br + 1:close].rstrip() + '\n        %s += 1;\n    }' % o)
                self.rules.add('R12')
                return body[:kw] + new + body[close + 1:]
            if ms:
                x, e, sk, rev = ms.group(1), ' '.join(ms.group(2).split()), ' '.join(ms.group(3).split()), ms.group(4)
                close = match_close(masked, br)
                if re.search(r'\bcontinue\b', masked[br + 1:close]):
                    raise ExtractError('%s: loop %d contains `continue` (R12 not applicable)' % (fnid, k))
                iv = 'index_%d' % k
                if rev:
                    new = ('let mut %s: usize = %s.len();\n    while %s > %s {\n        %s -= 1;\n        let %s = &%s[%s];' % (iv, e, iv, sk, iv, x, e, iv)
                           + body[br + 1:close].rstrip() + '\n    }')
                else:
                    new = ('let mut %s: usize = %s;\n    while %s < %s.len() {\n        let %s = &%s[%s];' % (iv, sk, iv, e, x, e, iv)
                           + body[br + 1:close].rstrip() + '\n        %s += 1;\n    }' % iv)
                self.rules.add('R12')
                return body[:kw] + new + body[close + 1:]
        if kind != 'for' or not mm:
            raise ExtractError('%s: loop %d is not of the form `for (i, x) in E.iter()[.take(K)].enumerate()` or `for x in E.iter().skip(K)[.rev()]` (R6/R12 not applicable)' % (fnid, k))
        i, x, e = mm.group(1), mm.group(2), ' '.join(mm.group(3).split())
        take = ' '.join(mm.group(4).split()) if mm.group(4) else None
        close = match_close(masked, br)
        inner = masked[br + 1:close]
        if re.search(r'\bcontinue\b', inner):
            raise ExtractError('%s: loop %d contains `continue` (R6 not applicable)' % (fnid, k))
        # `.take(K)` with a pure bound K: the index additionally stays below K
        cond = '%s < %s.len()' % (i, e) + (' && %s < %s' % (i, take) if take else '')
        new = ('let mut %s: usize = 0;\n    while %s {\n        let %s = &%s[%s];' % (i, cond, x, e, i)
               + body[br + 1:close].rstrip() + '\n        %s += 1;\n    }' % i)
        self.rules.add('R6')
        return body[:kw] + new + body[close + 1:]

    def desugar_any_calls(self, body, fnid):
        """R13: `E.iter().any(|x| C)`  ->  `{ let mut any_found = false; let mut any_index: usize = 0;
        while any_index < E.len() && !any_found { let x = &E[any_index]; if C { any_found = true; } any_index += 1; } any_found }`
        (Iterator::any over a slice: true iff C holds for some element, evaluated left to right, stopping at the first hit)"""
        n = 0
        while True:
            masked = mask(body)
            m = re.search(r'([A-Za-z_][\w.]*)\s*\.iter\(\)\s*\.any\(', masked)
            if not m:
                break
            par = m.end() - 1
            close = match_close(masked, par)
            inner = body[par + 1:close]
            mc = re.match(r'\s*\|\s*(\w+)\s*\|\s*(.*)$', inner, re.S)
            if not mc:
                raise ExtractError('%s: `.iter().any(..)` without a closure `|x| ..` (R13 not applicable)' % fnid)
            e, x, c = m.group(1), mc.group(1), mc.group(2).strip()
            new = ('{ let mut any_found = false; let mut any_index: usize = 0;\n            while any_index < %s.len() && !any_found {\n                let %s = &%s[any_index];\n'
                   '                if %s { any_found = true; }\n                any_index += 1;\n            }\n            any_found }' % (e, x, e, c))
            body = body[:m.start()] + new + body[close + 1:]
            n += 1
            if n > 50:
                raise ExtractError('%s: R13 does not terminate' % fnid)
        if n:
            self.rules.add('R13')
        return body

    def desugar_position_calls(self, body, fnid):
        """R14: `E.iter().position(|x| C).unwrap_or_else(|| P)` (P diverges)  ->
        `{ let mut pos_index: usize = 0; let mut pos_found = false; while pos_index < E.len() && !pos_found { let x = &E[pos_index];
           if C { pos_found = true; } else { pos_index += 1; } } if !pos_found { P; } pos_index }`"""
        masked = mask(body)
        m = re.search(r'([A-Za-z_][\w.\s]*?)\s*\.iter\(\)\s*\.position\(', masked)
        if not m:
            raise ExtractError('%s: desugar_position but no `.iter().position(` (anchor lost)' % fnid)
        par = m.end() - 1
        close = match_close(masked, par)
        mc = re.match(r'\s*\|\s*(\w+)\s*\|\s*(.*)$', body[par + 1:close], re.S)
        mu = re.match(r'\s*\.unwrap_or_else\(', masked[close + 1:])
        if not mc or not mu:
            raise ExtractError('%s: not of the form `.position(|x| C).unwrap_or_else(|| P)` (R14 not applicable)' % fnid)
        upar = close + 1 + mu.end() - 1
        uclose = match_close(masked, upar)
        mp = re.match(r'\s*\|\|\s*(.*)$', body[upar + 1:uclose], re.S)
        if not mp:
            raise ExtractError('%s: unwrap_or_else without `|| P` (R14 not applicable)' % fnid)
        e = ''.join(m.group(1).split())
        x, c, pexp = mc.group(1), mc.group(2).strip(), mp.group(1).strip()
        new = ('{ let mut pos_index: usize = 0; let mut pos_found = false;\n            while pos_index < %s.len() && !pos_found {\n                let %s = &%s[pos_index];\n'
               '                if %s { pos_found = true; } else { pos_index += 1; }\n            }\n            if !pos_found { %s; }\n            pos_index }' % (e, x, e, c, pexp))
        self.rules.add('R14')
        return body[:m.start(1)] + new + body[uclose + 1:]

    def render_body(self, body, contract, fnid):
        if contract.desugar_position:
            body = self.desugar_position_calls(body, fnid)
        if contract.desugar_any:
            body = self.desugar_any_calls(body, fnid)
        for k in contract.enumerate_loops:
            body = self.desugar_enumerate(body, k, fnid)
        masked = mask(body)
        edits = []   # (pos, text) insertions
        # nested fns: render recursively and replace
        nested_spans = []
        for mm in re.finditer(r'(?m)^[ \t]*fn[ \t]+(\w+)', masked):
            nm = mm.group(1)
            par = masked.find('(', mm.end())
            parc = match_close(masked, par)
            br = masked.find('{', parc)
            cl = match_close(masked, br)
            # include attribute lines directly above
            start = mm.start()
            while True:
                prev_end = start - 1
                if prev_end <= 0:
                    break
                prev_start = body.rfind('\n', 0, prev_end) + 1
                if body[prev_start:prev_end].strip().startswith('#['):
                    start = prev_start
                else:
                    break
            nested_spans.append((start, cl + 1, nm))
        # loops (ordinals counted over the function's own loops, nested fns excluded)
        own_loops = []
        for (kw, br, kind) in loop_headers(body, masked):
            if any(a <= kw < b for a, b, _ in nested_spans):
                continue
            own_loops.append((kw, br, kind))
        used = set()
        for k, (kw, br, kind) in enumerate(own_loops, start=1):
            inv = contract.invariants.get(k)
            dec = contract.loopdec.get(k)
            lens = contract.loopensures.get(k)
            if k in contract.loopiter:
                if kind != 'for':
                    raise ExtractError('%s: loopiter on non-for loop %d' % (fnid, k))
                mm = re.compile(r'\bin\b').search(masked, kw, br)
                edits.append((mm.end(), ' %s:' % contract.loopiter[k]))
            if k in contract.loopproof:
                ptxt = '\n' + mark('        proof {\n' + contract.loopproof[k] + '\n        }', fnid + '::proof')
                edits.append((br + 1, ptxt))
            if k in contract.loopafter:
                ptxt = '\n' + mark('        proof {\n' + contract.loopafter[k] + '\n        }', fnid + '::proof')
                edits.append((match_close(masked, br) + 1, ptxt))
            if inv or dec or lens:
                ins = '\n'
                ins += clause_block('invariant_except_break' if lens else 'invariant', inv or [], fnid, 'inv%d' % k, indent='        ')
                ins += clause_block('ensures', lens or [], fnid, 'lens%d' % k, indent='        ')
                ins += clause_block('decreases', dec or [], fnid, 'ldec%d' % k, indent='        ')
                edits.append((br, ins + '    '))
                used.add(k)
        # structure guard: the contract was written for a body with exactly these loops and nested functions; a loop
        # or a nested function the contract does not know is a changed structure (e.g. statements folded into a loop,
        # a helper extracted) - undecided (exit 2), not a reason to report the postcondition as violated
        if contract.n_clauses() > 0 or contract.proof or contract.proof_begin:
            for k in range(1, len(own_loops) + 1):
                if not (contract.invariants.get(k) or contract.loopdec.get(k) or contract.loopensures.get(k) or k in contract.loopiter or k in contract.loopproof):
                    raise ExtractError('%s: loop %d of the body has no invariant in the contract (the structure of the function changed; anchor lost)' % (fnid, k))
            for (_a, _b, nm) in nested_spans:
                if nm not in contract.nested:
                    raise ExtractError('%s: nested fn %s has no contract (the structure of the function changed; anchor lost)' % (fnid, nm))
        for k in list(contract.invariants) + list(contract.loopdec) + list(contract.loopiter) + list(contract.loopproof):
            if k > len(own_loops):
                raise ExtractError('%s: contract names loop %d but the function has %d loops (anchor lost)' % (fnid, k, len(own_loops)))
        if contract.ghost_begin:
            edits.append((1, '\n' + mark(contract.ghost_begin, fnid + '::proof')))
        for (callee, ordinal, where), gtxt in contract.ghost_at.items():
            # the statement that contains the k-th call of `callee` at the top level of this body (not in a nested fn)
            if callee.startswith('"'):
                # literal anchor: the k-th statement whose text contains the quoted fragment (e.g. "SUBI(STACK, SPILL_SPACE")
                frag = callee[1:-1]
                hits = [m for m in re.finditer(re.escape(frag), masked) if not any(a <= m.start() < b for a, b, _ in nested_spans)]
                if ordinal > len(hits):
                    raise ExtractError('%s: ghost_at %s#%d: fragment not found (anchor lost)' % (fnid, callee, ordinal))
                m = hits[ordinal - 1]
                # end of the statement: the first `;` that is not inside brackets opened after the fragment
                depth, k3, semi = 0, m.end(), -1
                while k3 < len(masked):
                    ch = masked[k3]
                    if ch in '([{':
                        depth += 1
                    elif ch in ')]}':
                        depth -= 1
                    elif ch == ';' and depth <= 0:
                        semi = k3
                        break
                    k3 += 1
                # start of the statement: after the previous `;`, `{` or `}` that is not inside brackets closed before the fragment
                depth, k3, start = 0, m.start() - 1, 0
                while k3 >= 0:
                    ch = masked[k3]
                    if ch in ')]':
                        depth += 1
                    elif ch in '([':
                        depth -= 1
                    elif ch in ';{}' and depth <= 0:
                        start = masked.find('\n', k3) + 1 if masked.find('\n', k3) >= 0 and not masked[k3 + 1:masked.find('\n', k3)].strip() else k3 + 1
                        break
                    k3 -= 1
                if semi < 0:
                    raise ExtractError('%s: ghost_at %s#%d: end of statement not found (anchor lost)' % (fnid, callee, ordinal))
            else:
                hits = [m for m in re.finditer(r'(?<![\w:.])' + re.escape(callee) + r'\s*\(', masked)
                        if not any(a <= m.start() < b for a, b, _ in nested_spans)]
                if ordinal > len(hits):
                    raise ExtractError('%s: ghost_at %s#%d: call not found (anchor lost)' % (fnid, callee, ordinal))
                m = hits[ordinal - 1]
                par_close = match_close(masked, m.end() - 1)
                semi = masked.find(';', par_close)
                if semi < 0 or masked[par_close + 1:semi].strip():
                    raise ExtractError('%s: ghost_at %s#%d: the call is not a statement of its own (anchor lost)' % (fnid, callee, ordinal))
                start = masked.rfind('\n', 0, m.start()) + 1
                if masked[start:m.start()].strip():
                    raise ExtractError('%s: ghost_at %s#%d: the call does not start its statement (anchor lost)' % (fnid, callee, ordinal))
            if where == 'after':
                edits.append((semi + 1, '\n' + mark(gtxt, fnid + '::proof')))
            elif where == 'blockend':
                # before the closing brace of the innermost block that contains the call statement
                depth, k2, close_at = 0, semi + 1, None
                while k2 < len(masked):
                    ch = masked[k2]
                    if ch == '{':
                        depth += 1
                    elif ch == '}':
                        if depth == 0:
                            close_at = k2
                            break
                        depth -= 1
                    k2 += 1
                if close_at is None:
                    raise ExtractError('%s: ghost_at %s#%d blockend: enclosing block not found (anchor lost)' % (fnid, callee, ordinal))
                edits.append((close_at, mark(gtxt, fnid + '::proof') + '\n'))
            else:
                edits.append((start, mark(gtxt, fnid + '::proof') + '\n'))
        if contract.proof_begin:
            ptxt = '\n' + mark('    proof {\n' + contract.proof_begin + '\n    }', fnid + '::proof')
            edits.append((1, ptxt))
        if contract.proof:
            endpos = len(body.rstrip()) - 1
            ptxt = mark('    proof {\n' + contract.proof + '\n    }', fnid + '::proof') + '\n'
            edits.append((endpos, ptxt))
        # nested replacement
        for (a, b, nm) in nested_spans:
            nc = contract.nested.get(nm, Contract())
            if nc.props is None:
                nc.props = contract.props
            if not nc.props_add:
                nc.props_add = contract.props_add
            if contract.assumed_from:
                nc.assumed_from = contract.assumed_from
            sub = self.render_fn(body[a:b], nc, fnid + '/' + nm, top=False)
            self.register_fn(fnid + '/' + nm, nc, None, None)
            edits.append((a, ('REPLACE', b, sub)))
        for nm in contract.nested:
            if nm not in [x[2] for x in nested_spans]:
                raise ExtractError('%s: nested fn %s not found (anchor lost)' % (fnid, nm))
        # apply edits back to front
        out = body
        for pos, e in sorted(edits, key=lambda x: x[0], reverse=True):
            if isinstance(e, tuple):
                _, b, sub = e
                out = out[:pos] + sub + out[b:]
            else:
                out = out[:pos] + e + out[pos:]
        return out

    def register_fn(self, fnid, contract, srcpath, line):
        if contract.slow and self.tier == 'quick' and not contract.external_body:
            contract.external_body = True
            self.assumed.append('contract of %s is ASSUMED in the quick tier (its proof takes minutes); it is verified in the thorough tier' % fnid)
            self.functions.append({'id': fnid, 'src': srcpath, 'line': line, 'requires': len(contract.requires),
                                   'ensures': len(contract.ensures), 'invariants': 0, 'decreases': 0, 'external_body': True,
                                   'novac': True, 'props': [], 'ensures_text': [], 'requires_text': [], 'slow_skipped': True})
            return
        if contract.assumed_from and not contract.external_body:
            contract.external_body = True
            self.assumed.append('contract of %s assumed in this unit (external_body); it is proved in the unit that includes %s without `assumed`' % (fnid, contract.assumed_from))
            self.functions.append({'id': fnid, 'src': srcpath, 'line': line, 'requires': len(contract.requires),
                                   'ensures': len(contract.ensures), 'invariants': 0, 'decreases': 0, 'external_body': True,
                                   'novac': True, 'props': [], 'ensures_text': [], 'requires_text': [], 'assumed_from': contract.assumed_from})
            return
        self.functions.append({
            'id': fnid, 'src': srcpath, 'line': line,
            'requires': len(contract.requires), 'ensures': len(contract.ensures),
            'invariants': sum(len(v) for v in contract.invariants.values()),
            'decreases': len(contract.decreases) + sum(len(v) for v in contract.loopdec.values()),
            'external_body': contract.external_body, 'novac': contract.novac,
            'props': sorted(set((contract.props if contract.props is not None else self.unit.props) + contract.props_add)),
            'ensures_text': [' '.join(x.split()) for x in contract.ensures],
            'requires_text': [' '.join(x.split()) for x in contract.requires],
        })
        if contract.external_body:
            self.assumed.append('external_body (contract assumed, body not verified): ' + fnid)

    # ---- items -------------------------------------------------------------------------------
    def emit_item(self, spec):
        s = self.src(spec.alias)
        c = spec.contract
        rel = self.unit.srcs[spec.alias]
        if spec.kind in ('struct', 'enum', 'const', 'static', 'type'):
            it = s.find(spec.kind, spec.name)
            text = strip_docs(it.text)
            if c.derive_del:
                def rem(mm):
                    items = [x.strip() for x in mm.group(1).split(',') if x.strip() and x.strip() not in c.derive_del]
                    return '#[derive(' + ', '.join(items) + ')]'
                text, n = re.subn(r'#\[derive\(([^)]*)\)\]', rem, text, count=1)
                if n != 1:
                    raise ExtractError('%s: derive- but no derive attribute' % spec.name)
                self.rules.add('R11')
            if c.derive_add:
                def add(mm):
                    return '#[derive(' + mm.group(1).rstrip().rstrip(',') + ', ' + ', '.join(c.derive_add) + ')]'
                text, n = re.subn(r'#\[derive\(([^)]*)\)\]', add, text, count=1)
                if n != 1:
                    raise ExtractError('%s: derive+ but no derive attribute' % spec.name)
                self.rules.add('R3')
            if spec.kind == 'const' and re.search(r':\s*&str\b', text):
                text = re.sub(r':\s*&str\b', ": &'static str", text, count=1)
                self.rules.add('R8')
            if spec.kind == 'const' and c.ensures:
                # R9: a const whose initialiser calls an exec `const fn` becomes a Verus `exec const` with a contract;
                # the initialiser expression is unchanged
                mm = re.search(r'const\s+(\w+)\s*:\s*([^=]+?)\s*=\s*(.*);\s*$', text, re.S)
                if not mm:
                    raise ExtractError('%s: cannot parse const for R9' % spec.name)
                pre = text[:mm.start()]
                ens = clause_block('ensures', c.ensures, spec.name, 'post')
                text = '%s//@@begin %s\nexec const %s: %s\n%s{\n    %s\n}\n//@@end %s' % (pre, spec.name, mm.group(1), mm.group(2), ens, mm.group(3).strip(), spec.name)
                self.rules.add('R9')
                c.novac = True
                self.register_fn(spec.name, c, rel, it.line_of(it.kw))
            if c.attrs:
                text = '\n'.join(c.attrs) + '\n' + text
            return '// <<< %s %s  (%s:%d)\n%s\n' % (spec.kind, spec.name, rel, it.line_of(it.kw), text)
        if spec.kind == 'impl':
            it = s.find('impl', spec.name)
            text = strip_docs(it.text)
            # whole impl kept verbatim; functions inside get no contracts (proved against their *SpecImpl twin)
            return '// <<< impl %s  (%s:%d)\n%s\n' % (spec.name, rel, it.line_of(it.kw), text)
        if spec.kind == 'fn':
            path = spec.name.split('/')
            it = s.find('fn', path[0])
            fnid = spec.ident
            text = strip_docs(it.text)
            if c.specialize:
                text = self.specialize(text, path[0], c.specialize)
            elif c.rename:
                text = re.sub(r'\bfn\s+' + re.escape(path[0]) + r'\b', 'fn ' + c.rename, text, count=1)
            self.register_fn(fnid, c, rel, it.line_of(it.kw))
            return '// <<< fn %s  (%s:%d)\n%s\n' % (fnid, rel, it.line_of(it.kw), self.render_fn(text, c, fnid))
        if spec.kind == 'stub':
            # R7: body replaced by an opaque stub (used for `fresh_label`, whose body touches a `static mut`)
            it = s.find('fn', spec.name)
            text = strip_docs(it.text)
            head = text[:text.index('{')].rstrip()
            self.rules.add('R7')
            c.external_body = True
            self.register_fn(spec.ident, c, rel, it.line_of(it.kw))
            stub = head + ' {\n    unimplemented!()\n}\n'
            return '// <<< stub fn %s  (%s:%d)  body replaced by an opaque stub (R7)\n%s\n' % (spec.ident, rel, it.line_of(it.kw), self.render_fn(stub, c, spec.ident))
        if spec.kind in ('method', 'traitmethod'):
            if spec.kind == 'method':
                blk = s.find('impl', spec.impl_header)
                self_ty = spec.impl_header.split(' for ')[-1].strip()
                if ' for ' in spec.impl_header:
                    self.rules.add('R4')
            else:
                blk = s.find('trait', spec.impl_header.split(' for ')[0].split('<')[0].strip())
                self_ty = spec.impl_header.split(' for ')[-1].strip()
                self.rules.add('R4')
            it = s.find('fn', spec.name, lo=blk.body_open + 1, hi=blk.end - 1)
            if it.body_open is None:
                raise ExtractError('%s has no body' % spec.name)
            fnid = self_ty + '::' + spec.ident
            text = strip_docs(it.text)
            if c.rename:
                text = re.sub(r'\bfn\s+' + re.escape(spec.name) + r'\b', 'fn ' + c.rename, text, count=1)
            # dedent one level
            text = '\n'.join(ln[4:] if ln.startswith('    ') else ln for ln in text.split('\n'))
            self.register_fn(fnid, c, rel, it.line_of(it.kw))
            rendered = self.render_fn(text, c, fnid)
            return '// <<< method %s  (%s:%d)\nimpl %s {\n%s\n}\n' % (fnid, rel, it.line_of(it.kw), self_ty, rendered)
        raise ExtractError('unknown item kind ' + spec.kind)

    def specialize(self, text, name, spec):
        """R5: remove fn-pointer parameters, substitute the actual function names in the body."""
        mapping, newname = spec
        masked = mask(text)
        m = re.search(r'\bfn\s+' + re.escape(name) + r'\b', masked)
        par = masked.find('(', m.end())
        parc = match_close(masked, par)
        params = split_args(text[par + 1:parc])
        kept, idxs = [], []
        for k, p in enumerate(params):
            pname = p.split(':')[0].strip()
            if pname in mapping:
                if not re.match(r'^\w+\s*:\s*fn\s*\(', ' '.join(p.split())):
                    raise ExtractError('%s: parameter %s is not a fn pointer' % (name, pname))
                idxs.append((k, pname))
            else:
                kept.append(p)
        if len(idxs) != len(mapping):
            raise ExtractError('%s: specialisation parameters not found' % name)
        body_start = masked.find('{', parc)
        body = text[body_start:]
        bmask = masked[body_start:]
        # substitute calls `param(` by `actual(` in the body (longest names first; word-bounded; masked-aware)
        out, last = [], 0
        pat = re.compile(r'\b(' + '|'.join(re.escape(p) for _, p in idxs) + r')\b(?=\s*\()')
        for mm in pat.finditer(bmask):
            out.append(body[last:mm.start()])
            out.append(mapping[mm.group(1)])
            last = mm.end()
        out.append(body[last:])
        head = text[:m.start()] + 'fn ' + newname + '(\n    ' + ',\n    '.join(kept) + ',\n) '
        self.special_calls.append((name, [(k, mapping[p]) for k, p in idxs], newname, len(params)))
        self.rules.add('R5')
        return head + ''.join(out)

    def rewrite_special_calls(self, text):
        """Rewrite call sites `f(a, b, rest..)` of specialised functions to `f__a(rest..)`."""
        for (name, fixed, newname, nparams) in self.special_calls:
            masked = mask(text)
            out, last = [], 0
            for mm in re.finditer(r'(?<![\w:])' + re.escape(name) + r'\s*\(', masked):
                # skip the definition itself
                pre = masked[max(0, mm.start() - 4):mm.start()]
                if pre.endswith('fn '):
                    continue
                par = mm.end() - 1
                parc = match_close(masked, par)
                args = split_args(text[par + 1:parc])
                if len(args) != nparams:
                    continue
                if all(args[k] == fn for k, fn in fixed):
                    rest = [a for k, a in enumerate(args) if k not in [x[0] for x in fixed]]
                    out.append(text[last:mm.start()])
                    out.append(newname + '(' + ', '.join(rest) + ')')
                    last = parc + 1
            out.append(text[last:])
            text = ''.join(out)
        return text

    def build(self):
        u = self.unit
        parts = []
        parts.append('// GENERATED by /verif/engine/extract.py from /repo (unit %s). Do not edit.\n' % u.name)
        parts.append('#![allow(unused_imports, dead_code, unused_variables, unused_mut, non_snake_case, non_camel_case_types, unused_parens, unreachable_code, unused_assignments)]\n')
        parts.append('use vstd::prelude::*;\n')
        for x in u.uses:
            parts.append('use %s;\n' % x.rstrip(';'))
        parts.append('verus! {\n')
        parts.append('pub mod spec {\nuse super::*;\nuse vstd::prelude::*;\n')
        for sp in u.specs:
            with open(os.path.join(self.verif_root, sp)) as f:
                parts.append('// ======== %s ========\n%s\n' % (sp, f.read()))
        parts.append('} // mod spec\nuse spec::*;\n')
        for x in u.uses_inner:
            parts.append('use %s;\n' % x.rstrip(';'))
        if u.broadcasts:
            parts.append('broadcast use {%s};\n' % ', '.join(u.broadcasts))
        for vb in u.verbatim:
            parts.append('// ======== verbatim (contract file) ========\n%s\n' % vb)
        body = []
        for it in u.items:
            body.append(self.emit_item(it))
        code = '\n'.join(body)
        code = self.rewrite_special_calls(code)
        # any remaining call of an unspecialised fn-pointer function is unsupported
        for (name, fixed, newname, nparams) in self.special_calls:
            mk = mask(code)
            for mm in re.finditer(r'(?<![\w:])' + re.escape(name) + r'\s*\(', mk):
                pre = mk[max(0, mm.start() - 4):mm.start()]
                if pre.endswith('fn '):
                    continue
                par = mm.end() - 1
                args = split_args(code[par + 1:match_close(mk, par)])
                if len(args) == nparams:
                    raise ExtractError('call of %s with function arguments %s has no specialisation (R5)' % (name, args[:2]))
        parts.append(code)
        parts.append('\n// vacuity canary: must be REJECTED by the verifier on every run\n//@@begin verif_canary\nproof fn verif_canary()\n    ensures false, //@@verif_canary::post#1\n{\n}\n//@@end verif_canary\n')
        parts.append('\n} // verus!\nfn main() {}\n')
        return ''.join(parts)


ASSUMPTION_PATTERNS = [
    (r'\bassume\s*\(', 'assume(..)'),
    (r'\badmit\s*\(', 'admit()'),
    (r'#\[verifier::external_body\]', 'external_body'),
    (r'\bassume_specification\b', 'assume_specification'),
    (r'exec_allows_no_decreases_clause', 'exec_allows_no_decreases_clause'),
    (r'#\[verifier::external\]', 'external'),
    (r'\buninterp\s+spec\s+fn', 'uninterpreted spec fn'),
    (r'#\[verifier::truncate\]', 'truncate'),
    (r'\baxiom\b', 'axiom'),
]


def scan_assumptions(text):
    """Mechanical scan of an assembled unit for trusted constructs; returns list of 'kind @line: text'."""
    res = []
    masked_lines = mask(text).split('\n')
    lines = text.split('\n')
    for n, (ml, ln) in enumerate(zip(masked_lines, lines), start=1):
        for pat, kind in ASSUMPTION_PATTERNS:
            if re.search(pat, ml):
                res.append('%s @%d: %s' % (kind, n, ln.strip()[:160]))
    return res


def vacuity_variant(text, functions):
    """Unit text plus, for every contracted top-level exec fn F, a clone F__vac with the same
    precondition and body but `ensures false`.  Each clone must FAIL to verify; a clone that
    verifies has a contradictory precondition (or a body that cannot return), i.e. F's proof is vacuous.
    Clones call the original functions, so their contracts are unchanged."""
    lines = text.split('\n')
    out = []
    i = 0
    depth = 0
    start = None
    cur = None
    while i < len(lines):
        ln = lines[i]
        out.append(ln)
        mb = re.search(r'//@@begin (\S+)', ln)
        me = re.search(r'//@@end (\S+)', ln)
        if mb:
            if depth == 0:
                start, cur = i, mb.group(1)
            depth += 1
        elif me:
            depth -= 1
            if depth == 0 and cur == me.group(1) and cur != 'verif_canary':
                blk = lines[start:i + 1]
                # the end marker may share its line with the closing brace; keep only up to the marker
                clone = []
                replaced_fn = False
                in_ens = False
                done_ens = False
                for bl in blk:
                    if not replaced_fn:
                        rn = cur.split('::')[-1]
                        nb, n = re.subn(r'\bfn\s+' + re.escape(rn) + r'\b', 'fn %s__vac' % rn, bl, count=1)
                        if n:
                            bl = nb
                            replaced_fn = True
                    if not done_ens and bl.strip() == 'ensures' and bl.startswith('    ensures'):
                        clone.append(bl)
                        clone.append('        false, //@@%s__vac::vacuity#1' % cur)
                        in_ens = True
                        continue
                    if in_ens:
                        if ('//@@%s::post#' % cur) in bl:
                            continue
                        in_ens = False
                        done_ens = True
                    bl = bl.replace('//@@begin %s' % cur, '//@@begin %s__vac' % cur)
                    bl = bl.replace('//@@end %s' % cur, '//@@end %s__vac' % cur)
                    bl = bl.replace('//@@%s::' % cur, '//@@%s__vac::' % cur).replace('//@@%s/' % cur, '//@@%s__vac/' % cur)
                    clone.append(bl)
                if (done_ens or in_ens) and replaced_fn:
                    # the closing line of the block is `}//@@end X` possibly followed by more; emit the clone after it
                    out.extend(clone)
                start = cur = None
        i += 1
    return '\n'.join(out)


def main():
    import argparse
    import json
    ap = argparse.ArgumentParser()
    ap.add_argument('contract')
    ap.add_argument('-o', '--out', required=True)
    a = ap.parse_args()
    try:
        u = Unit(a.contract)
        e = Emitter(u)
        text = e.build()
    except ExtractError as ex:
        print('EXTRACT-ERROR: %s' % ex, file=sys.stderr)
        sys.exit(2)
    os.makedirs(os.path.dirname(os.path.abspath(a.out)), exist_ok=True)
    with open(a.out, 'w') as f:
        f.write(text)
    meta = {'unit': u.name, 'props': u.props, 'encprops': u.encprops, 'functions': e.functions, 'rules': sorted(e.rules), 'assumed': e.assumed,
            'assumption_scan': scan_assumptions(text)}
    with open(a.out + '.meta.json', 'w') as f:
        json.dump(meta, f, indent=1)
    print('wrote %s: %d functions, rules %s' % (a.out, len(e.functions), sorted(e.rules)))


if __name__ == '__main__':
    main()

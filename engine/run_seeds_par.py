#!/usr/bin/env python3
"""Replay seeded changes WITHOUT touching /repo: per property, a scratch copy of /verif (/tmp/vc_<prop>) whose
references to /repo are rewritten to the scratch worktree /tmp/wt_<prop> (git worktree of /repo at HEAD); the
seeds of one property run one after the other, different properties in parallel.
usage: run_seeds_par.py [-j N] <seed> ...        (seed = C05-4 ...)
Writes seeded/<seed>/meta.json and appends to seeded/RESULTS.md."""
import concurrent.futures as cf
import json, os, re, subprocess, sys, time
VERIF = os.path.dirname(os.path.dirname(os.path.abspath(__file__)))
SEEDS = os.path.join(VERIF, 'seeded')
args = sys.argv[1:]
jobs = 5
if args and args[0] == '-j':
    jobs = int(args[1]); args = args[2:]
by_prop = {}
for s in args:
    by_prop.setdefault(s.split('-')[0], []).append(s)
head = subprocess.run(['git', '-C', '/repo', 'rev-parse', 'HEAD'], capture_output=True, text=True).stdout.strip()


def sh(cmd, **kw):
    return subprocess.run(cmd, shell=True, capture_output=True, text=True, **kw)


def prepare(prop):
    wt, vc = '/tmp/wt_' + prop, '/tmp/vc_' + prop
    if not os.path.isdir(wt):
        sh('git -C /repo worktree add --detach %s %s' % (wt, head))
    sh('git -C %s checkout -q -- . && git -C %s checkout -q --detach %s' % (wt, wt, head))
    sh('mkdir -p %s && rsync -a --delete --exclude build --exclude target --exclude replays --exclude evidence --exclude .git %s/ %s/' % (vc, VERIF, vc))
    sh("grep -rlI '/repo' %s --exclude-dir=seeded --exclude-dir=target --exclude='*.md' --exclude='*.json' --exclude='*.jsonl' | xargs sed -i 's#/repo#%s#g'" % (vc, wt))


def run_prop(prop):
    wt, vc = '/tmp/wt_' + prop, '/tmp/vc_' + prop
    out = []
    for seed in by_prop[prop]:
        p = os.path.join(SEEDS, seed)
        sh('git -C %s checkout -q -- .' % wt)
        a = sh('git -C %s apply %s' % (wt, os.path.join(p, 'patch.diff')))
        if a.returncode != 0:
            out.append((seed, 'patch does not apply', [], []))
            continue
        t0 = time.time()
        try:
            r = subprocess.run(['./check', prop, '--tier', 'quick'], capture_output=True, text=True, cwd=vc, timeout=5400)
            rc, so = r.returncode, r.stdout + r.stderr
        except subprocess.TimeoutExpired:
            rc, so = 2, 'timeout'
        finally:
            sh('git -C %s checkout -q -- .' % wt)
        viol = re.findall(r'^VIOLATION property=\S+ replay=\S+ obligation=(.*)$', so, re.M)
        infra = re.findall(r'^INFRA-ERROR: (.*)$', so, re.M)
        agent = {}
        try:
            agent = json.load(open(os.path.join(p, 'agent_meta.json')))
        except Exception:
            pass
        meta = {
            'property': prop,
            'summary': agent.get('summary', ''),
            'what_it_needs_to_manifest': agent.get('what_it_needs_to_manifest', ''),
            'files_changed': agent.get('files_changed', []),
            'confirmed': 'patch applies to the pinned tree (+ fix commits); builds; `cargo test --workspace --no-fail-fast --offline` shows no new failures with the patch; the demonstration fails with the patch and passes without it (engine/confirm_seed.sh in a scratch worktree)',
            'ran': './check %s --tier quick in a scratch copy of /verif pointed at a scratch worktree of /repo with the patch applied (engine/run_seeds_par.py)' % prop,
            'exit_code': rc,
            'detected': rc == 1,
            'violations': viol,
            'infra_errors': [i[:300] for i in infra],
            'wall_s': round(time.time() - t0, 1),
        }
        json.dump(meta, open(os.path.join(p, 'meta.json'), 'w'), indent=1)
        verdict = 'DETECTED' if rc == 1 else ('MISSED' if rc == 0 else 'EXIT2')
        out.append((seed, verdict, viol, infra))
        print(seed, verdict, viol[:3], [i[:160] for i in infra[:2]], flush=True)
    return out


# snapshot /verif for every property BEFORE any run starts (later edits of /verif do not leak into the runs)
for _p in sorted(by_prop):
    prepare(_p)
print('snapshots ready', flush=True)
rows = []
with cf.ThreadPoolExecutor(max_workers=jobs) as ex:
    for res in ex.map(run_prop, sorted(by_prop)):
        rows += res
with open(os.path.join(SEEDS, 'RESULTS.md'), 'a') as f:
    for d, v, viol, infra in rows:
        f.write('| %s | %s | %s |\n' % (d, v, '<br>'.join(viol[:4])))

#!/bin/sh
# usage: engine/try_patch.sh <patch.diff> <prop> [<prop> ...]
# applies the patch to /repo, runs the quick checks, reverts the patch; prints one line per property
patch="$1"; shift
cd /verif
git -C /repo apply "$patch" || { echo "patch does not apply"; exit 3; }
for p in "$@"; do
  out=$(./check "$p" --tier quick 2>&1); rc=$?
  echo "== $p rc=$rc"
  echo "$out" | grep -E "^(VIOLATION|KNOWN-FINDING|INFRA-ERROR)" | cut -c1-400 | head -8
done
git -C /repo checkout -- .
git -C /repo status --short | head -3

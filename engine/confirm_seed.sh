#!/bin/bash
# usage: confirm_seed.sh <prop> <n>   -- confirms a sub-agent's seeded change in its scratch worktree /tmp/wt_<prop>
# checks: patch applies; builds; existing tests pass with patch; demo fails with patch; demo passes without
prop=$1; n=$2; sub=${3:-seeded}; wt=/tmp/wt_$prop; d=$wt/$sub/$n
export CARGO_TARGET_DIR=$wt/target CARGO_NET_OFFLINE=true
cd $wt || exit 9
git checkout -q -- . 
res="prop=$prop n=$n"
if ! git apply --check $d/patch.diff 2>/dev/null; then echo "$res apply=FAIL"; exit 1; fi
git apply $d/patch.diff
t=$(cargo test --workspace --no-fail-fast --offline 2>&1 | grep -E "^test result: FAILED|^error: test failed" | grep -v "testsuite" | wc -l)
res="$res tests_with_patch_failures=$t"
demo=$(ls $d/demo.sh 2>/dev/null)
if [ -n "$demo" ]; then
  (bash $d/demo.sh >/tmp/seedlog_${prop}_${n}_with.txt 2>&1); rc1=$?
  git checkout -q -- .
  (bash $d/demo.sh >/tmp/seedlog_${prop}_${n}_without.txt 2>&1); rc2=$?
  res="$res demo_with_patch_rc=$rc1 demo_without_rc=$rc2"
else
  git checkout -q -- .
  res="$res demo=missing"
fi
git checkout -q -- .
echo "$res"

#!/bin/sh
# run every claimed property's check (default tier quick) concurrently; print one line per property
tier=${1:-quick}
cd /verif
for p in C05 C06 C07 C08 C09 C10 C11 C13 C14 C20; do
  ( out=$(./check $p --tier $tier 2>&1); rc=$?; echo "$p rc=$rc $(echo "$out" | tail -1)"; [ $rc -ne 0 ] && echo "$out" | grep -E "^(VIOLATION|INFRA)" | cut -c1-400 ) &
done
wait

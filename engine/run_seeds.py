#!/usr/bin/env python3
"""Apply every seeded change under /verif/seeded/<prop>-<n>/patch.diff to /repo, run the quick check of
its property, record which obligations raise the alarm, and undo the change. Writes meta.json per seed
and seeded/RESULTS.md.  Never commits anything to /repo."""
import json, os, re, subprocess, sys, time
VERIF = os.path.dirname(os.path.dirname(os.path.abspath(__file__)))
SEEDS = os.path.join(VERIF, 'seeded')
only = sys.argv[1:]
rows = []
for d in sorted(os.listdir(SEEDS)):
    p = os.path.join(SEEDS, d)
    if not os.path.isdir(p) or not os.path.exists(os.path.join(p, 'patch.diff')):
        continue
    if only and d not in only and d.split('-')[0] not in only:
        continue
    prop = d.split('-')[0]
    st = subprocess.run(['git', '-C', '/repo', 'status', '--porcelain', '--untracked-files=no'], capture_output=True, text=True).stdout
    if st.strip():
        print('refusing: /repo has uncommitted changes'); sys.exit(2)
    a = subprocess.run(['git', '-C', '/repo', 'apply', os.path.join(p, 'patch.diff')], capture_output=True, text=True)
    if a.returncode != 0:
        rows.append((d, 'patch does not apply', [])); continue
    t0 = time.time()
    try:
        r = subprocess.run([os.path.join(VERIF, 'check'), prop, '--tier', 'quick'], capture_output=True, text=True, cwd=VERIF, timeout=3600)
    finally:
        subprocess.run(['git', '-C', '/repo', 'checkout', '--', '.'])
    viol = re.findall(r'^VIOLATION property=\S+ replay=\S+ obligation=(.*)$', r.stdout, re.M)
    infra = re.findall(r'^INFRA-ERROR: (.*)$', r.stdout, re.M)
    agent = {}
    try:
        agent = json.load(open(os.path.join(p, 'agent_meta.json')))
    except Exception:
        pass
    meta = {
        'property': prop,
        'summary': agent.get('summary', ''),
        'what_it_needs_to_manifest': agent.get('what_it_needs_to_manifest', ''),
        'files_changed': agent.get('files_changed', []),
        'confirmed': 'patch applies to the pinned tree (+ fix commits); builds; `cargo test --workspace --no-fail-fast --offline` shows no new failures with the patch; the demonstration (demo.sh / demo.rs) fails with the patch and passes without it (engine/confirm_seed.sh in a scratch worktree)',
        'ran': './check %s --tier quick with the patch applied to /repo (then reverted)' % prop,
        'exit_code': r.returncode,
        'detected': r.returncode == 1,
        'violations': viol,
        'infra_errors': infra,
        'wall_s': round(time.time() - t0, 1),
    }
    json.dump(meta, open(os.path.join(p, 'meta.json'), 'w'), indent=1)
    rows.append((d, 'DETECTED' if r.returncode == 1 else ('MISSED' if r.returncode == 0 else 'EXIT2'), viol))
    print(d, rows[-1][1], viol[:3], flush=True)
with open(os.path.join(SEEDS, 'RESULTS.md'), 'a' if only else 'w') as f:
    if not only:
        f.write('# Seeded changes and the checks that catch them\n\n| seed | verdict | obligations raising the alarm |\n|---|---|---|\n')
    for d, v, viol in rows:
        f.write('| %s | %s | %s |\n' % (d, v, '<br>'.join(viol[:4])))

"""Which units / auxiliary checks decide which property, and what each evidence file must say."""
import os
import re

VERIF = os.path.dirname(os.path.dirname(os.path.abspath(__file__)))

TRUSTED_BASE = [
    'T1 ISA specifications spec/isa_*.rs (step/run/encodable/encoded_len), hand-written from the vendor manuals the source links to; word-granular memory with non-wrapping byte addresses',
    'T2 extraction rules R1-R14 of engine/extract.py (R3 derive(Structural), R4 static dispatch of `impl Trait for Backend`, R5 call-site specialisation of fn-pointer parameters, R6/R12/R13 desugaring of slice iterator chains (.enumerate/.take/.skip/.rev/.any/.position) into index loops, R11 assumed derived clone)',
    'T3 impl Print/Display for Code/Register/Immediate: the printed text is assumed to denote the Code value',
    'T4 assembler, linker, libc, OS process conventions',
    'Verus 0.2026.09.13 + bundled Z3; rustc 1.98.1 front end',
]

GLOBAL_ASSUMPTIONS = [
    'machine arithmetic: Rust integer operations in extracted exec code are checked for overflow by Verus (obligations, not assumptions); ISA-level arithmetic uses explicit wrapping 64-bit spec functions',
    'termination: proved where a decreases clause is present; see per-unit assumption scan for exec_allows_no_decreases_clause',
]

PROPS = {
    'C05': {
        'units': ['axcut_context'],
        'kill_units': ['axcut_context'],
        'aux': ['native_linearize'],
        'level': 'other',
        'claim': 'Proved by Verus: the kernels of linearization - fresh_identifier (strictly increasing ids), TypingContext::freshen (same length, kinds and types position-wise equal, a variable is kept iff its id is neither in the clash set nor used at an earlier position, otherwise it receives an id above the old maximum; result ids pairwise distinct and disjoint from the clash set) and TypingContext::filter_by_set (every result binding has its id in the set, comes from the input, no input binding with id in the set is lost, retained bindings keep their positions; both loops terminate; no index or underflow panic). Bounded native contract check of the real Prog::linearize: for thousands of random well-typed non-linear AxCut programs the linearized program is checked against the executable form of the property - at every statement the ordered environment is exactly the list that statement expects (call / invoke / let / switch / create), positions agree in kind and type, substitutions read bound variables and bind pairwise distinct targets, operands remain available - and its behaviour on an AxCut reference machine (consuming, positional discipline) equals that of the source program (named, non-consuming discipline).',
        'note': 'The Verus part covers the kernels only; Linearizing::linearize itself (AST recursion over Rc / HashSet) is bounded (random programs of bounded size), never counted as proved. The oracle of the bounded check is the property text, clause by clause, plus a reference interpreter written for this purpose (trusted).',
        'technique': 'Verus contracts on fresh_identifier / TypingContext::freshen / TypingContext::filter_by_set + bounded native contract check of linearize against the executable postcondition (exact environments) and a reference AxCut machine',
        'not_decided': 'linearization for all programs (unbounded); the reference interpreter is trusted',
        'explanation': 'Verus: freshen / filter_by_set / fresh_identifier contracts. Bounded: random non-linear programs -> Prog::linearize -> executable postcondition + behavioural equality on a reference machine.',
    },
    'C06': {
        'units': ['x86_code', 'x86_memory', 'x86_moves', 'x86_routine', 'x86_print'],
        'kill_units': ['x86_code'],
        'aux': ['native_emitters_x86', 'native_moves_x86', 'native_heap_x86', 'native_prints_x86', 'native_programs_x86'],
        'level': 'proof',
        'claim': 'Every instruction emitter of the x86-64 backend is proved, for all operand placements (registers / spill slots, every aliasing pattern the call sites allow) and all 64-bit contents, to have exactly the effect of the abstract operation on an explicit ISA model, with a full frame (everything but the named scratch locations unchanged). This is the instruction-selection layer of C06, proved without bound. The same run verifies the x86-64 memory primitives, parallel-move primitives, routine prologue/epilogue/argument shuffle and print sequence (contracts described under C09-C11, C13) because the property anchors those files too; whole-program simulation is not decided (bounded differential execution only).',
        'note': 'Trusted: the hand-written ISA specification, the extraction rules, the printer, Verus/Z3. Program-level composition is not decided.',
        'technique': 'contract-based deductive verification (Verus) of the extracted real emitters against an ISA specification',
        'not_decided': 'composition of the proved fragments over whole programs (labels, indirect jumps, recursion); conditional-branch control flow is specified as a taken/not-taken decision only',
        'explanation': 'Hoare-style contracts over an x86-64 ISA specification on every instruction emitter of axcut2x86_64, for all operand placements and all 64-bit values',
    },
    'C07': {
        'units': ['a64_code', 'a64_memory', 'a64_moves', 'a64_routine', 'a64_print'],
        'kill_units': ['a64_code'],
        'aux': ['native_emitters_a64', 'native_moves_a64', 'native_heap_a64', 'native_prints_a64', 'kani_bitkernels', 'native_programs_a64'],
        'level': 'proof',
        'claim': 'Every instruction emitter of the AArch64 backend is proved, for all operand placements and all 64-bit contents, to have exactly the effect of the abstract operation on an explicit A64 model (including the three code paths of rem with their scratch-register clashes and, for load_immediate, the MOVZ/MOVN/MOVK synthesis of every 64-bit literal), with a full frame. The same run verifies the AArch64 memory primitives, parallel-move primitives, routine prologue/epilogue/argument shuffle and print sequence (contracts described under C09-C11, C13). Whole-program simulation is not decided (bounded differential execution only).',
        'note': 'Trusted: the hand-written A64 specification, the extraction rules, the printer, Verus/Z3.',
        'technique': 'contract-based deductive verification (Verus) of the extracted real emitters against an ISA specification',
        'not_decided': 'composition of the proved fragments over whole programs; conditional-branch control flow is specified as a taken/not-taken decision only',
        'explanation': 'Hoare-style contracts over an A64 ISA specification on every instruction emitter of axcut2aarch64',
    },
    'C08': {
        'units': ['rv64_code', 'rv64_memory', 'rv64_moves'],
        'kill_units': ['rv64_code'],
        'aux': ['native_emitters_rv', 'native_moves_rv', 'native_heap_rv', 'native_programs_rv'],
        'level': 'proof',
        'claim': 'Every Instructions method of the RISC-V backend is proved to push instructions whose effect on an RV64 model is exactly the abstract operation (one instruction each; add_and_jump uses the scratch register X1), the variable-to-register map is 2*position + number + 4 with the capacity assertion unreachable below 14 variables, and print_i64 is unreachable for print-free programs. All three backends are proved against the same effect vocabulary (wadd/wsub/wmul/wdiv/wrem, slt/sle), which is the sense in which they agree. The same run verifies the RISC-V memory and parallel-move primitives. Whole-program simulation is not decided (bounded differential execution only).',
        'note': 'Trusted: the hand-written RV64 specification (LW/SW read as 64-bit accesses as the property states), extraction rules, Verus/Z3.',
        'technique': 'contract-based deductive verification (Verus) of the extracted real emitters against an ISA specification',
        'not_decided': 'composition over whole programs; agreement with the other backends only through the shared effect specifications',
        'explanation': 'Hoare-style contracts over an RV64 ISA specification on every instruction emitter of axcut2rv64',
    },
    'C09': {
        'units': ['x86_memory', 'a64_memory', 'rv64_memory', 'x86_code', 'a64_code', 'rv64_code', 'x86_print', 'a64_print'],
        'kill_units': ['x86_memory', 'a64_memory', 'rv64_memory'],
        'aux': ['native_moves', 'native_heap', 'native_prints'],
        'level': 'other',
        'claim': 'Local contracts of the memory primitives on all three backends are proved by Verus for all placements and all machine states: share_block_n / erase_block (exact count delta; last reference -> the block is pushed on the deferred list with its children untouched; null pointers skipped), release_block, acquire_block (three exhaustive cases; children of a reused deferred block erased one level), store/load of a field and of a value (slot addresses, integer fields store 0 in the pointer slot, a loaded pointer is shared iff the load is non-destructive), the one-block loops store_values / load_values / store_zeros (right-to-left fold of the single-value transformer with the environment position and field index every call must use; unused fields nulled), the block-linking recursions store_fields / load_fields for objects of any size (composition of the proved transformers block by block, scratch-register evacuation for spilled block pointers, release before read iff consumed) and Memory::store / Memory::load (reference-count dispatch between release and share path). Each contract pins the whole post-state (extensional equality of registers and memory), so the frame is proved too. The statement itself - the four-state partition of all blocks and exact counts at every statement boundary of every execution - is an inductive invariant over program histories and is NOT decided; the proved contracts are the per-operation lemmas such a proof would use.',
        'note': 'Assumed: A-ITE (the two label patterns emitted by skip_if_zero / if_zero_then_else implement if-then-else; stated as axioms over the structured semantics srun) and A-LBL (fresh labels); ISA specs. The global invariant is not under contract (bounded heap audit only).',
        'technique': 'contract-based deductive verification (Verus) of the memory primitives against exact state-transformer specifications, under assumed if-then-else pattern axioms',
        'not_decided': 'the global heap invariant (partition into reachable / reusable / deferred / beneath-deferred, count = references - 1) at every statement boundary',
        'explanation': 'Proved: per-primitive exact state transformers with full frame on x86-64, AArch64, RISC-V (under A-ITE). Not decided: the whole-execution heap invariant.',
    },
    'C10': {
        'units': ['x86_memory', 'a64_memory', 'rv64_memory', 'x86_code', 'a64_code', 'rv64_code', 'x86_print', 'a64_print'],
        'kill_units': ['x86_memory', 'a64_memory', 'rv64_memory'],
        'aux': ['native_heap', 'native_prints'],
        'level': 'proof',
        'claim': 'Sentence 1 of the property is the postcondition of acquire_block, proved on all three backends for every machine state: its three cases are exhaustive and exclusive (reusable-list link non-zero / else deferred-list link non-zero / else neither), and only in the third does the frontier register receive an address not already held in the state, namely old frontier + 64 (one block). Every other verified emitter has the frontier register in its frame (erase_block sets it to a block that is already below the frontier). Sentence 2 (space independent of iteration count) is a corollary over histories and is given informally, not counted as an obligation.',
        'note': 'Assumed: A-ITE / A-LBL, ISA specs. The history-level corollary is not machine-checked.',
        'technique': 'contract-based deductive verification (Verus): exact three-case postcondition of acquire_block + frame clauses of all other emitters',
        'not_decided': 'the footprint bound as a statement over whole executions (sentence 2)',
        'explanation': 'acquire_block bumps the frontier only when both list links are zero, by exactly one block; proved on x86-64, AArch64, RISC-V',
    },
    'C11': {
        'units': ['x86_moves', 'a64_moves', 'rv64_moves', 'a64_code', 'rv64_code', 'x86_code'],
        'kill_units': ['x86_moves', 'a64_moves', 'rv64_moves'],
        'aux': ['native_moves'],
        'level': 'other',
        'claim': 'Backend pieces of the parallel-moves algorithm (mov, store_temporary, restore_temporary) are proved by Verus for all placements, and the x86-64 analysis contains_spill_edge (mutual recursion over the spanning tree) is proved equal to an independent recursive definition of "some edge joins two spill slots"; the generic forest algorithm, the reference-count dispatch and their composition through the real Substitute::code_statement are checked exhaustively for every map of m<=5 new to n<=5 old variables, every kind assignment and every window offset across each register/spill boundary on all three backends (m,n<=4 in the quick tier), by executing the emitted code on a machine model with distinct tokens. The exhaustive part is a bounded check, not a proof.',
        'note': 'Bounded: spanning_forest/tree_moves use std BTreeMap/closures which neither Verus nor Kani reaches; correctness beyond the enumerated sizes is not decided. Trusted: machine models, token parametricity (T5).',
        'technique': 'Verus contracts on the backend move primitives + exhaustive bounded native contract check of the real Substitute::code_statement',
        'not_decided': 'correctness of spanning_forest for unbounded sizes',
        'explanation': 'Verus: mov/store_temporary/restore_temporary contracts (proved, all placements). Bounded native contract check: all maps m,n<=5 (thorough) / <=4 (quick) x kinds x offsets x 3 backends + random larger maps; never counted as proved.',
    },
    'C13': {
        'units': ['x86_routine', 'a64_routine', 'x86_code', 'a64_code', 'x86_print', 'a64_print'],
        'kill_units': ['x86_routine', 'a64_routine', 'x86_print', 'a64_print'],
        'aux': ['native_prints'],
        'level': 'proof',
        'claim': 'Prologue, epilogue and argument shuffle of the x86-64 and AArch64 routines are proved by Verus over the ISA models (callee-saved registers and the stack pointer restored, result register untouched by the epilogue, stack-pointer alignment arithmetic, heap/free initialisation). caller_save_registers_info is proved on both backends to return exactly the caller-saved registers that hold live variables (plus X30 and the scratch register on AArch64), for every context. The save/align/call/restore sequence around the print runtime is proved too (units x86_print, a64_print): save_caller_save_registers / restore_caller_save_registers by loop invariants, and print_i64 itself with the postcondition that, from every machine state with an aligned stack pointer, exactly one call happens with an aligned stack pointer and the right argument and afterwards SP, the heap/free registers, every live variable of the context and the whole frame above SP are unchanged, under a call model that destroys every caller-saved register, the link register, flags and all memory below SP. Independently, the same sequence around the print runtime and the whole routine skeleton (both backends) are checked by a bounded native contract check for 1..20 live variables x kind assignments x argument positions and 0..5 / 0..7 entry arguments, on machine models whose call destroys all caller-saved state and faults on a misaligned stack pointer.',
        'note': 'Trusted: ISA and call models (T1), calling-convention tables (which registers a callee may clobber), rules R6/R12 (iterator desugaring). The native check is bounded and never counted as proved.',
        'technique': 'Verus contracts on setup/cleanup/move_arguments/caller_save_registers_info/save_/restore_caller_save_registers/print_i64 (x86-64, AArch64) + bounded native contract check of print_i64 and the routine skeleton under a clobbering call model',
        'not_decided': 'composition of the routine skeleton and of print calls with arbitrary program bodies (whole-program statement)',
        'explanation': 'Verus (x86-64 and AArch64): setup / cleanup / move_arguments / preamble + lemma_prologue_epilogue; caller_save_registers_info; save_/restore_caller_save_registers; print_i64 with the per-call statement of the property as postcondition under a clobbering call model. Every function the property is anchored in is under a discharged contract; what is NOT decided is the composition with arbitrary program bodies. Bounded cross-check: print_i64 call sequence for 1..24 live variables and whole-routine execution for every supported number of parameters.',
    },
    'C20': {
        'units': ['x86_routine', 'a64_routine', 'x86_code', 'a64_code'],
        'kill_units': ['x86_routine', 'a64_routine'],
        'aux': ['cbmc_io', 'cbmc_driver', 'native_prints'],
        'level': 'other',
        'claim': 'Generated C driver: proved by CBMC (complete: loop-free up to the fixed argument count, all 64-bit values) for 0..7 parameters, with the default and with an explicit heap size - wrong argument count is reported and nothing runs, otherwise every decimal argument reaches its parameter unchanged and in order and the result of main is the result of asm_main. Argument shuffle move_arguments (x86-64 and AArch64): proved by Verus as one simultaneous assignment. io.c: CBMC on the real file; quick tier: all values -9999..9999 symbolically plus all boundary constants (bounded); thorough tier: all values of 1..8 decimal digits (both signs) symbolically, class by class, plus symbolic windows of 10^4 consecutive values at both ends of every 9..19-digit class and at seeded random places (bounded there: whole classes of 9+ digits do not finish in CBMC, and CBMC 6.11 refuses loop contracts on the do/while digit loop). Whole-routine execution with 0..5 / 0..7 parameters on the machine models (bounded).',
        'note': 'Bounded in the quick tier for io.c. Trusted: CBMC, the typed contracts of the libc conversion functions, POSIX exit status truncation, write(2).',
        'technique': 'CBMC on the real io.c and on the generated driver text against functional contracts; Verus contract on move_arguments',
        'not_decided': 'io.c for values of 9..19 decimal digits other than the sampled windows and boundary constants (and beyond -9999..9999 in the quick tier)',
        'explanation': 'CBMC contracts for print_i64/println_i64 and for the generated drivers (n = 0..7), Verus contract for the argument shuffle, bounded native execution of the routine skeleton',
    },
    'C14': {
        'units': ['x86_code', 'a64_code', 'rv64_code', 'x86_routine', 'a64_routine', 'x86_moves', 'a64_moves', 'rv64_moves', 'x86_memory', 'a64_memory', 'rv64_memory', 'x86_print', 'a64_print'],
        'aux': ['native_labels', 'kani_fresh_label'],
        'level': 'proof',
        'claim': 'Every instruction pushed by any verified emitter satisfies the operand-range predicate of its printed form (immediates, displacements, register numbers), jump-table entries have the stride assumed by the tag arithmetic, spill and field offsets are in range; proved for all inputs. fresh_label returns old counter + 1 from every counter value (Kani, inductive, complete), so generated label numbers never repeat. Uniqueness of label STRINGS across a whole file and symbol collisions are not decided (bounded corpus check only).',
        'note': 'Trusted: the encodable() predicate written from the ISA manuals, the printer (T3), Verus/Z3.',
        'technique': 'contract-based deductive verification (Verus): encodability postcondition on every emitter; Kani inductive harness for fresh_label',
        'not_decided': 'global label uniqueness and symbol collisions (reasoning about printed strings)',
        'explanation': 'operand-range (encodability) clause of every emitter contract, jump-table stride, offsets',
    },
}


def unit_encprops(uname):
    p = os.path.join(VERIF, 'contracts', uname + '.vc')
    try:
        with open(p) as f:
            for ln in f:
                if ln.startswith('@encprops'):
                    return ln.split()[1:]
    except OSError:
        pass
    return []


NOT_APPLICABLE = {
    'C01': 'whole-pipeline equivalence is a composition of ~10 AST passes + assembler + libc; no contract within reach of Verus/Kani expresses it; its contract-decidable links are claimed as C06, C10, C11, C13, C14, C20',
    'C02': 'AST-recursive CPS translation with Rc, closures and HashSet<String>; Verus cannot ingest it without rewriting (a model), Kani does not finish on std collections',
    'C03': 'focusing is written with Box<dyn FnOnce> meta-continuations, unsupported by both verifiers; only the fresh-identifier kernel is in reach',
    'C04': '788-line case analysis over Core/AxCut ASTs needing both abstract machines as specifications inside the verifier',
    'C12': 'needs declarative type systems of four IRs as specifications and preservation proofs of four AST passes',
    'C15': 'needs a declarative typing relation for Fun (absent) and the HashMap-based checker inside the verifier',
    'C16': 'round trip through the third-party pretty layout engine and a generated LALR(1) parser',
    'C17': 'hyperproperty over hash seeds; std HashMap iteration order is unspecified in every available verifier',
    'C18': 'panic-freedom of lalrpop-generated tables and the type checker on all byte strings',
    'C19': 'asymptotic size bound over program families; no per-call contract expresses it',
}

NOTES = 'Contracts are never written into /repo: engine/extract.py copies the real function text on every run and splices contracts from contracts/*.vc. See DESIGN.md.'

"""Minimal, comment/string-aware slicing of Rust source text.

Nothing here rewrites code: it only locates items (fn / struct / enum / const / static / type /
impl / trait), their signatures and bodies, and loop headers, by brace matching on a *masked* copy
of the text in which comment and string/char-literal contents are blanked out.
"""
import re


class ExtractError(Exception):
    """An anchor was lost or a construct is unsupported: infrastructure error (exit 2), never a VIOLATION."""


def mask(text):
    """Return text of identical length with comments and string/char literal contents replaced by spaces."""
    out = list(text)
    i, n = 0, len(text)

    def blank(a, b):
        for k in range(a, b):
            if out[k] != '\n':
                out[k] = ' '

    while i < n:
        c = text[i]
        if text.startswith('//', i):
            j = text.find('\n', i)
            j = n if j < 0 else j
            blank(i, j)
            i = j
        elif text.startswith('/*', i):
            depth, j = 1, i + 2
            while j < n and depth:
                if text.startswith('/*', j):
                    depth += 1
                    j += 2
                elif text.startswith('*/', j):
                    depth -= 1
                    j += 2
                else:
                    j += 1
            blank(i, j)
            i = j
        elif c == '"' or (c == 'r' and re.match(r'r#*"', text[i:i + 8]) and (i == 0 or not (text[i - 1].isalnum() or text[i - 1] == '_'))):
            if c == 'r':
                m = re.match(r'r(#*)"', text[i:])
                hashes = m.group(1)
                start = i + len(m.group(0))
                end = text.find('"' + hashes, start)
                if end < 0:
                    raise ExtractError('unterminated raw string')
                blank(start, end)
                i = end + 1 + len(hashes)
            else:
                j = i + 1
                while j < n and text[j] != '"':
                    j += 2 if text[j] == '\\' else 1
                blank(i + 1, j)
                i = j + 1
        elif c == "'":
            # char literal or lifetime
            m = re.match(r"'(\\.[^']*|[^\\'])'", text[i:])
            if m:
                blank(i + 1, i + len(m.group(0)) - 1)
                i += len(m.group(0))
            else:
                i += 1
        else:
            i += 1
    return ''.join(out)


def match_close(masked, open_pos):
    """Position of the bracket closing the one at open_pos."""
    pairs = {'{': '}', '(': ')', '[': ']'}
    o = masked[open_pos]
    c = pairs[o]
    depth = 0
    for k in range(open_pos, len(masked)):
        ch = masked[k]
        if ch == o:
            depth += 1
        elif ch == c:
            depth -= 1
            if depth == 0:
                return k
    raise ExtractError('unbalanced %s at %d' % (o, open_pos))


def depth_at(masked, lo, pos):
    d = 0
    for k in range(lo, pos):
        if masked[k] == '{':
            d += 1
        elif masked[k] == '}':
            d -= 1
    return d


class Item:
    """A located item: [start, end) in the source, with signature and body positions."""

    def __init__(self, src, kind, name, start, kw, body_open, end):
        self.src = src          # Source
        self.kind = kind
        self.name = name
        self.start = start      # including attributes
        self.kw = kw            # position of the `fn`/`struct`/.. keyword's line start (visibility included)
        self.body_open = body_open  # position of '{' (or None)
        self.end = end          # exclusive

    @property
    def text(self):
        return self.src.text[self.start:self.end]

    def line_of(self, pos):
        return self.src.text.count('\n', 0, pos) + 1


class Source:
    def __init__(self, path):
        self.path = path
        with open(path) as f:
            self.text = f.read()
        self.masked = mask(self.text)

    def _attrs_start(self, pos):
        """Walk back over attribute lines (`#[...]`) and doc comments directly above pos; keep attributes only."""
        text = self.text
        line_start = text.rfind('\n', 0, pos) + 1
        start = line_start
        while True:
            prev_end = start - 1
            if prev_end <= 0:
                break
            prev_start = text.rfind('\n', 0, prev_end) + 1
            line = text[prev_start:prev_end].strip()
            if line.startswith('#[') or line.startswith('///') or line.startswith('//'):
                start = prev_start
            else:
                break
        return start

    def find(self, kind, name, lo=0, hi=None, nested=False):
        """Locate item `kind name` at brace depth 0 of region [lo, hi) (any depth if nested)."""
        hi = len(self.text) if hi is None else hi
        m = self.masked
        if kind == 'fn':
            pat = re.compile(r'(?m)^[ \t]*(pub(\([^)]*\))?[ \t]+)?(const[ \t]+)?(unsafe[ \t]+)?fn[ \t]+' + re.escape(name) + r'\b')
        elif kind in ('struct', 'enum', 'trait'):
            pat = re.compile(r'(?m)^[ \t]*(pub(\([^)]*\))?[ \t]+)?' + kind + r'[ \t]+' + re.escape(name) + r'\b')
        elif kind in ('const', 'static', 'type'):
            pat = re.compile(r'(?m)^[ \t]*(pub(\([^)]*\))?[ \t]+)?' + kind + r'[ \t]+(mut[ \t]+)?' + re.escape(name) + r'\b')
        elif kind == 'impl':
            # name is the header text after `impl`, whitespace-normalised, e.g. "Instructions<Code, Temporary, Immediate> for Backend"
            pat = re.compile(r'(?m)^[ \t]*impl\b')
        else:
            raise ExtractError('unknown item kind ' + kind)
        hits = []
        for mm in pat.finditer(m, lo, hi):
            if not nested and depth_at(m, lo, mm.start()) != 0:
                continue
            if kind == 'impl':
                brace = m.find('{', mm.end())
                header = ' '.join(self.text[mm.end():brace].split())
                if header != name:
                    continue
            hits.append(mm)
        if len(hits) != 1:
            raise ExtractError('%s: expected exactly one `%s %s`, found %d' % (self.path, kind, name, len(hits)))
        mm = hits[0]
        kw = mm.start()
        start = self._attrs_start(kw)
        if kind in ('const', 'static', 'type'):
            # ends at ';' at bracket depth 0
            k = mm.end()
            d = 0
            while k < hi:
                ch = m[k]
                if ch in '{([':
                    d += 1
                elif ch in '})]':
                    d -= 1
                elif ch == ';' and d == 0:
                    break
                k += 1
            return Item(self, kind, name, start, kw, None, k + 1)
        if kind == 'fn':
            par = m.find('(', mm.end())
            parc = match_close(m, par)
            brace = m.find('{', parc)
            semi = m.find(';', parc)
            if brace < 0 or (0 <= semi < brace):
                # declaration without body (trait method)
                return Item(self, kind, name, start, kw, None, semi + 1)
            close = match_close(m, brace)
            return Item(self, kind, name, start, kw, brace, close + 1)
        if kind == 'struct':
            # unit / tuple struct ends with ';', record struct with '}'
            k = mm.end()
            while k < hi and m[k] not in '{(;':
                k += 1
            if m[k] == ';':
                return Item(self, kind, name, start, kw, None, k + 1)
            if m[k] == '(':
                pc = match_close(m, k)
                semi = m.find(';', pc)
                return Item(self, kind, name, start, kw, None, semi + 1)
            close = match_close(m, k)
            return Item(self, kind, name, start, kw, k, close + 1)
        brace = m.find('{', mm.end())
        close = match_close(m, brace)
        return Item(self, kind, name, start, kw, brace, close + 1)


def loop_headers(text, masked=None):
    """Positions (keyword_pos, body_brace_pos) of every `for`/`while`/`loop` in a function text, in source order."""
    masked = masked if masked is not None else mask(text)
    res = []
    for mm in re.finditer(r'\b(for|while|loop)\b', masked):
        kw = mm.group(1)
        # `for` in `impl X for Y` / HRTB does not occur inside function bodies we extract
        k = mm.end()
        d = 0
        while k < len(masked):
            ch = masked[k]
            if ch in '([':
                d += 1
            elif ch in ')]':
                d -= 1
            elif ch == '{' and d == 0:
                break
            k += 1
        if k >= len(masked):
            raise ExtractError('loop without body')
        res.append((mm.start(), k, kw))
    return res


def split_args(argtext):
    """Split a call's argument text at top-level commas."""
    args, d, cur = [], 0, ''
    for ch in argtext:
        if ch in '([{':
            d += 1
        elif ch in ')]}':
            d -= 1
        if ch == ',' and d == 0:
            args.append(cur.strip())
            cur = ''
        else:
            cur += ch
    if cur.strip():
        args.append(cur.strip())
    return args

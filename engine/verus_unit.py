"""Run one contract unit through Verus and map the verifier's diagnostics to named obligations."""
import json
import os
import re
import subprocess
import sys
import time

sys.path.insert(0, os.path.dirname(os.path.abspath(__file__)))
from extract import Unit, Emitter, ExtractError, scan_assumptions, vacuity_variant  # noqa: E402

VERIF = os.path.dirname(os.path.dirname(os.path.abspath(__file__)))
BUILD = os.path.join(VERIF, 'build', os.environ.get('VERIF_BUILD_SUBDIR', ''))
ENC_PAT = re.compile(r'\b(appended_enc|all_enc|encodable|is_fixed_jump|enc_ok)\b')


class InfraError(Exception):
    """Tool failure / lost anchor / rlimit: exit 2, never an alarm."""


class UnitResult:
    def __init__(self, name):
        self.name = name
        self.file = None
        self.functions = []          # meta entries
        self.rules = []
        self.assumptions = []
        self.obligations = {}        # obligation id -> {'props': [...], 'text': str, 'fn': id}
        self.failed = {}             # obligation id (detailed) -> {'base': base obligation id, 'message':..., 'rendered':..., 'props': [...]}
        self.undecided = []          # list of (fn, message)
        self.verified_fns = 0
        self.smt_ms = 0
        self.wall_s = 0.0
        self.cmd = ''
        self.canary_rejected = False
        self.vacuous = []            # functions whose `ensures false` variant verified
        self.vacuity_checked = 0
        self.slowest = []


def enclosing_fn(lines, lineno):
    """Innermost //@@begin X ... //@@end X region containing lineno (1-based)."""
    stack = []
    for i in range(0, min(lineno, len(lines))):
        ln = lines[i]
        m = re.search(r'//@@begin (\S+)', ln)
        if m:
            stack.append(m.group(1))
            continue
        m = re.search(r'//@@end (\S+)', ln)
        if m and stack and stack[-1] == m.group(1) and i < lineno - 1:
            stack.pop()
    return stack[-1] if stack else None


def marker_on(lines, lineno):
    if 1 <= lineno <= len(lines):
        m = re.search(r'//@@(\S+::(?:post|pre|inv\d+|ldec\d+|dec|proof|vacuity)(?:#\d+)?)', lines[lineno - 1])
        if m:
            return m.group(1)
    return None


def run_verus(path, extra=(), timeout=1800):
    cmd = ['verus', path, '--error-format=json', '--output-json', '--time', '--multiple-errors', '4'] + list(extra)
    env = dict(os.environ)
    t0 = time.time()
    try:
        p = subprocess.run(cmd, capture_output=True, text=True, timeout=timeout, env=env, cwd=BUILD)
    except subprocess.TimeoutExpired:
        raise InfraError('verus timed out on ' + path)
    wall = time.time() - t0
    try:
        res = json.loads(p.stdout)
    except Exception:
        raise InfraError('verus produced no JSON result for %s: %s' % (path, (p.stderr or '')[-2000:]))
    diags = []
    for ln in p.stderr.split('\n'):
        ln = ln.strip()
        if ln.startswith('{'):
            try:
                diags.append(json.loads(ln))
            except Exception:
                pass
    return res, diags, wall, ' '.join(cmd)


def classify(diag, lines):
    """-> (kind, detailed obligation id, base fn id, message) ; kind in fail/undecided/ignore/infra"""
    if diag.get('level') != 'error':
        return ('ignore', None, None, None)
    msg = diag.get('message', '')
    if msg.startswith('aborting due to'):
        return ('ignore', None, None, None)
    spans = diag.get('spans', [])
    prim = [sp for sp in spans if sp.get('is_primary')] or spans
    if not prim:
        return ('infra', None, None, msg)
    pl = prim[0]['line_start']
    fn = enclosing_fn(lines, pl)
    if 'rlimit' in msg or 'Resource limit' in msg:
        return ('undecided', None, fn, msg)
    if 'postcondition not satisfied' in msg:
        mk = marker_on(lines, pl)
        if mk is None:
            for sp in spans:
                mk = mk or marker_on(lines, sp['line_start'])
        if mk is None:
            return ('infra', None, fn, 'unmapped postcondition failure at line %d' % pl)
        return ('fail', mk, mk.rsplit('::', 1)[0], msg)
    if 'precondition not satisfied' in msg:
        callee = None
        for sp in spans:
            if not sp.get('is_primary'):
                callee = callee or marker_on(lines, sp['line_start'])
        if callee is None:
            # precondition of a vstd / std function (index, unwrap, ...)
            return ('fail', '%s::body[precondition of library call at generated line %d: %s]' % (fn, pl, lines[pl - 1].split('//@@')[0].strip()[:80]), fn, msg)
        return ('fail', '%s::call[%s]' % (fn, callee), fn, msg)
    if 'invariant not satisfied' in msg or 'loop invariant' in msg:
        mk = None
        for sp in spans:
            mk = mk or marker_on(lines, sp['line_start'])
        when = 'before loop' if 'before' in msg else 'at end of loop body'
        # A loop invariant (or a termination measure) is part of OUR proof, tied to the form of the loop it annotates; a
        # restructured but equivalent loop breaks it without breaking the property.  It is therefore undecided, and the
        # runner looks for a concrete failing input before it reports anything.
        return ('undecided', None, (mk.rsplit('::', 1)[0] if mk else fn), 'loop invariant of the contract not preserved (%s): %s' % (when, (mk or msg)))
    if 'decreases not satisfied' in msg or 'could not prove termination' in msg:
        return ('undecided', None, fn, 'termination measure of the contract not established: ' + msg)
    if fn is None:
        return ('infra', None, None, '%s (generated line %d)' % (msg, pl))
    mk = marker_on(lines, pl)
    if mk and '::proof' in mk:
        # a failing helper assertion in a spliced proof block is a proof-engineering failure: undecided
        return ('undecided', None, fn, 'assertion in spliced proof block failed: ' + msg)
    # exec-mode safety obligations inside the extracted body
    src = lines[pl - 1].split('//@@')[0].strip()[:100]
    return ('fail', '%s::body[%s: `%s`]' % (fn, msg, src), fn, msg)


def verify_unit(vc_path, tier='quick', with_vacuity=True, rlimit=None, keep=True):
    try:
        u = Unit(vc_path)
        em = Emitter(u, tier=tier)
        text = em.build()
    except ExtractError as ex:
        raise InfraError('extraction failed for %s: %s' % (vc_path, ex))
    os.makedirs(BUILD, exist_ok=True)
    out = os.path.join(BUILD, u.name + '.rs')
    with open(out, 'w') as f:
        f.write(text)
    r = UnitResult(u.name)
    r.file = out
    r.functions = em.functions
    r.rules = sorted(em.rules)
    r.assumptions = list(em.assumed) + scan_assumptions(text)
    lines = text.split('\n')

    # obligation universe
    for fn in em.functions:
        if fn['external_body']:
            continue
        props = fn['props']
        for k, t in enumerate(fn['ensures_text'], start=1):
            is_enc = bool(ENC_PAT.search(t))
            p = list(u.encprops) if (is_enc and u.encprops) else list(props)
            if is_enc and u.encprops and not re.match(r'^\s*(appended_enc|all_enc)', t):
                p = sorted(set(p) | set(props))
            if is_enc and u.encprops and re.match(r'^\s*appended_enc', t):
                # appended_enc also carries the append-only frame used by the semantic properties
                p = sorted(set(u.encprops) | set(props))
            r.obligations['%s::post#%d' % (fn['id'], k)] = {'props': p, 'text': t, 'fn': fn['id']}
        for k in range(1, fn['invariants'] + 1):
            r.obligations['%s::inv#%d' % (fn['id'], k)] = {'props': list(props), 'text': 'loop invariant', 'fn': fn['id']}
        for k in range(1, fn['decreases'] + 1):
            r.obligations['%s::dec#%d' % (fn['id'], k)] = {'props': list(props), 'text': 'termination measure', 'fn': fn['id']}
        r.obligations['%s::body' % fn['id']] = {
            'props': sorted(set(props) | set(u.encprops)),
            'text': 'exec-mode safety of the extracted body: no overflow, no out-of-bounds, panic!/assert! unreachable, every callee precondition holds',
            'fn': fn['id']}

    # generous default resource limit: false obligations fail crisply (opaque arithmetic), so headroom only
    # protects true obligations from solver variance
    extra = ['--rlimit', str(rlimit or 60)]
    vfut = None
    if with_vacuity:
        import concurrent.futures as _cf
        vtext = vacuity_variant(text, em.functions)
        vout = os.path.join(BUILD, u.name + '__vacuity.rs')
        with open(vout, 'w') as f:
            f.write(vtext)
        _pool = _cf.ThreadPoolExecutor(max_workers=1)
        vfut = _pool.submit(run_verus, vout, ['--rlimit', '5', '--verify-root', '--verify-function', '*__vac'])
    res, diags, wall, cmd = run_verus(out, extra)
    r.wall_s = wall
    r.cmd = cmd
    vr = res.get('verification-results', {})
    r.verified_fns = vr.get('verified', 0)
    if vr.get('encountered-vir-error'):
        msgs = [d.get('rendered') or d.get('message') for d in diags if d.get('level') == 'error']
        raise InfraError('Verus rejected unit %s (unsupported construct / type error):\n%s' % (u.name, '\n'.join(m for m in msgs[:5] if m)))
    try:
        tm = res['times-ms']['smt']
        r.smt_ms = tm.get('smt-run', 0)
        fb = []
        for m in tm.get('smt-run-module-times', []):
            fb += m.get('function-breakdown', [])
        fb.sort(key=lambda x: -x['time'])
        r.slowest = [(f['function'].split('::', 1)[-1], f['time']) for f in fb[:5]]
    except Exception:
        pass
    if not vr and not diags:
        raise InfraError('verus gave no result for ' + u.name)
    if not vr:
        # no verification took place at all (e.g. a syntax error in the assembled unit)
        errs = [d for d in diags if d.get('level') == 'error']
        raise InfraError('rustc/Verus front-end error in unit %s (nothing was verified):\n%s' % (u.name, '\n'.join((d.get('rendered') or d.get('message') or '') for d in errs[:5])))
    hard = [d for d in diags if d.get('level') == 'error' and d.get('code')]
    if hard:
        raise InfraError('rustc/Verus front-end error in unit %s:\n%s' % (u.name, '\n'.join((d.get('rendered') or d['message']) for d in hard[:5])))
    for d in diags:
        kind, oid, fn, msg = classify(d, lines)
        if kind == 'ignore':
            continue
        if kind == 'infra':
            raise InfraError('unit %s: unmapped verifier error: %s\n%s' % (u.name, msg, d.get('rendered', '')))
        if kind == 'undecided':
            r.undecided.append((fn, msg))
            continue
        if oid.startswith('verif_canary::'):
            r.canary_rejected = True
            continue
        base_fn = fn
        if oid in r.obligations:
            base = oid
        elif re.match(r'.*::inv\d+#\d+\[', oid):
            base = None
            # map to k-th invariant overall is not needed: charge the function body
            base = '%s::body' % base_fn
        else:
            base = '%s::body' % base_fn
        info = r.obligations.get(base, {'props': sorted(set(u.props) | set(u.encprops)), 'text': ''})
        r.failed[oid] = {'base': base, 'message': msg, 'rendered': d.get('rendered', ''), 'props': info['props'],
                         'text': info.get('text', ''), 'fn': base_fn}
    # a function whose loop invariants / proof text no longer go through is not in a state to be judged: its other
    # failing obligations (e.g. an overflow check inside the restructured loop, or the postcondition that the broken
    # invariant was supposed to carry) are artefacts of the broken proof, so they are undecided as well
    broken = {fn for (fn, _m) in r.undecided if fn}
    for oid in list(r.failed):
        f = r.failed[oid]
        if f['fn'] in broken or any(f['fn'].startswith(b + '/') or b.startswith(f['fn'] + '/') for b in broken):
            r.undecided.append((f['fn'], 'obligation %s not discharged in a function whose proof text is broken: %s' % (oid, f['message'])))
            del r.failed[oid]
    if not r.canary_rejected:
        raise InfraError('unit %s: the vacuity canary (`ensures false`) was NOT rejected: the unit is inconsistent, nothing it proves is trusted' % u.name)
    n_expected = len([f for f in em.functions if not f['external_body']])
    if r.verified_fns < 1 or n_expected < 1:
        raise InfraError('unit %s generated no obligations' % u.name)

    if with_vacuity:
        vres, vdiags, _, _ = vfut.result()
        vhard = [d for d in vdiags if d.get('level') == 'error' and d.get('code')]
        if vhard or vres.get('verification-results', {}).get('encountered-vir-error'):
            raise InfraError('the vacuity variant of unit %s does not compile: %s' % (u.name, (vhard[0].get('rendered') if vhard else '')[:1500]))
        vlines = vtext.split('\n')
        failed_fns = set()
        for d in vdiags:
            if d.get('level') != 'error':
                continue
            spans = d.get('spans', [])
            for sp in spans:
                fnn = enclosing_fn(vlines, sp['line_start'])
                mk = marker_on(vlines, sp['line_start'])
                if mk:
                    failed_fns.add(mk.rsplit('::', 1)[0].replace('__vac', ''))
                if fnn:
                    failed_fns.add(fnn.replace('__vac', ''))
        for fn in em.functions:
            if fn['external_body'] or fn['novac'] or fn['ensures'] == 0 or '/' in fn['id']:
                continue
            r.vacuity_checked += 1
            if fn['id'] not in failed_fns:
                r.vacuous.append(fn['id'])
        if not keep:
            os.remove(vout)
    return r

#!/usr/bin/env python3
"""Regenerate MANIFEST.json from engine/properties.py (single source of truth)."""
import json
import os
import sys
sys.path.insert(0, os.path.dirname(os.path.abspath(__file__)))
import properties as P

VERIF = P.VERIF
checks = []
for pid in sorted(P.PROPS):
    c = P.PROPS[pid]
    checks.append({
        'property_id': pid,
        'quick_cmd': './check %s --tier quick' % pid,
        'thorough_cmd': './check %s --tier thorough' % pid,
        'evidence_file': 'evidence/%s.json' % pid,
        'replay_cmd_template': './check %s --replay {path}' % pid,
        'engine': 'contracts',
        'level_claimed': {'category': c['level'], 'text': c['claim'], 'design_ref': c.get('design_ref', 'DESIGN.md section 4')},
        'level_note': c['note'],
        'technique': c['technique'],
    })
man = {
    'version': 1,
    'setup_cmd': './setup.sh',
    'hooks': {
        'guard': 'scc_verif',
        'enable': 'none needed: contracts live in /verif/contracts and are spliced into text extracted from /repo on every run (no hook commits)',
        'baseline_off_cmd': 'cd /repo && cargo test --workspace --no-fail-fast --offline',
        'source_commits': [],
        'add_only': True,
    },
    'engines': [
        {'name': 'contracts', 'path': 'check', 'serves_properties': sorted(P.PROPS),
         'kind_free_text': 'contract-based deductive verification: mechanical extraction of the real functions (engine/extract.py) + contracts (contracts/*.vc) + ISA specifications (spec/*.rs), discharged function by function by Verus; CBMC for the C runtime; Kani for loop-free integer kernels; bounded native contract checks where no verifier reaches (always labelled bounded)'},
    ],
    'checks': checks,
    'not_applicable': [{'property_id': k, 'reason': v} for k, v in sorted(P.NOT_APPLICABLE.items())],
    'notes': P.NOTES,
}
with open(os.path.join(VERIF, 'MANIFEST.json'), 'w') as f:
    json.dump(man, f, indent=1)
print('MANIFEST.json: %d checks, %d not_applicable' % (len(checks), len(man['not_applicable'])))

#!/usr/bin/env python3
"""developer tool: verify one unit and print the verdict per obligation:  engine/unit.py <unit> [quick|thorough] [--novac]"""
import os
import sys
sys.path.insert(0, os.path.dirname(os.path.abspath(__file__)))
os.environ.setdefault('VERIF_BUILD_SUBDIR', 'dev')
from verus_unit import verify_unit, InfraError  # noqa: E402

VERIF = os.path.dirname(os.path.dirname(os.path.abspath(__file__)))
unit = sys.argv[1]
tier = sys.argv[2] if len(sys.argv) > 2 and not sys.argv[2].startswith('--') else 'quick'
try:
    r = verify_unit(os.path.join(VERIF, 'contracts', unit + '.vc'), tier, '--novac' not in sys.argv)
except InfraError as e:
    print('INFRA:', str(e)[:6000])
    sys.exit(2)
print('file', r.file)
print('obligations', len(r.obligations), 'failed', len(r.failed), 'undecided', len(r.undecided), 'smt_ms', r.smt_ms, 'rules', sorted(r.rules))
for oid, f in r.failed.items():
    print('FAILED', oid, '|', f['message'])
    print(f.get('rendered', '')[:1500])
for fn, msg in r.undecided:
    print('UNDECIDED', fn, msg[:1500])
print('vacuous', r.vacuous, 'vacuity_checked', r.vacuity_checked)

#!/bin/bash
# usage: import_seed2.sh <prop> [<subdir> <offset>]  -- confirm round-N seeds of a sub-agent (in /tmp/wt_<prop>/<subdir>/{1,2})
# and copy the confirmed ones to /verif/seeded/<prop>-{offset+1,offset+2}   (round 2: seeded2 3; round 3: seeded3 5)
prop=$1; sub=${2:-seeded2}; off=${3:-3}
for k in 1 2; do
  src=/tmp/wt_$prop/$sub/$k
  [ -f $src/patch.diff ] || { echo "$prop $k: no patch"; continue; }
  res=$(bash /verif/engine/confirm_seed.sh $prop $k $sub)
  echo "$res"
  if echo "$res" | grep -q "tests_with_patch_failures=0" && ! echo "$res" | grep -q "demo_with_patch_rc=0" && echo "$res" | grep -q "demo_without_rc=0"; then
    dst=/verif/seeded/$prop-$((off+k)); rm -rf $dst; mkdir -p $dst; cp -r $src/. $dst/
    echo "$res" > $dst/confirmation.txt
  else
    echo "$prop $k: NOT CONFIRMED"
  fi
done

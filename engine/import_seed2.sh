#!/bin/bash
# usage: import_seed2.sh <prop>  -- confirm round-2 seeds of a sub-agent (in /tmp/wt_<prop>/seeded2/{1,2}) and copy the confirmed ones to /verif/seeded/<prop>-{4,5}
prop=$1
for k in 1 2; do
  src=/tmp/wt_$prop/seeded2/$k
  [ -f $src/patch.diff ] || { echo "$prop $k: no patch"; continue; }
  res=$(bash /verif/engine/confirm_seed.sh $prop $k seeded2)
  echo "$res"
  if echo "$res" | grep -q "tests_with_patch_failures=0" && ! echo "$res" | grep -q "demo_with_patch_rc=0" && echo "$res" | grep -q "demo_without_rc=0"; then
    dst=/verif/seeded/$prop-$((3+k)); rm -rf $dst; mkdir -p $dst; cp -r $src/. $dst/
    echo "$res" > $dst/confirmation.txt
  else
    echo "$prop $k: NOT CONFIRMED"
  fi
done

/* CBMC harness for the REAL lang/driver/infrastructure/io.c (included verbatim below).
 * Contract of print_i64 / println_i64 (property C20):
 *   exactly one write(1, p, n); the bytes are '-'? digits ('\n' for the line variant), no leading
 *   zero, sign iff v < 0, digits denote |v| as an unsigned 64-bit number; every access stays inside
 *   the local buffer; no signed overflow.  Range of v selected by -DLO=.. -DHI=.. (inclusive) or a
 *   single constant -DCONST=.. ; -DLINE=0/1 selects the variant (default: nondeterministic).       */
#include <stdint.h>
#include <stddef.h>
#include <stdbool.h>
#include <unistd.h>

static char out[32];
static size_t out_n;
static int writes;
static int fd_seen;

ssize_t write(int fd, const void *buf, size_t n) {
  writes++;
  fd_seen = fd;
  __CPROVER_assert(n >= 1 && n <= 21, "write length within 1..21");
  out_n = n;
  for (size_t i = 0; i < 21; i++) {
    if (i < n) out[i] = ((const char *)buf)[i];
  }
  return (ssize_t)n;
}

#include IO_C_PATH

int64_t nondet_i64(void);
_Bool nondet_bool(void);

int main(void) {
  int64_t v;
#ifdef CONST
  v = CONST;
#else
  v = nondet_i64();
  __CPROVER_assume(v >= LO && v <= HI);
#endif
#ifdef LINE
  _Bool line = LINE;
#else
  _Bool line = nondet_bool();
#endif
  if (line) println_i64(v); else print_i64(v);
  __CPROVER_assert(writes == 1, "exactly one write");
  __CPROVER_assert(fd_seen == 1, "written to standard output");
  size_t end = out_n;
  if (line) {
    __CPROVER_assert(out[out_n - 1] == '\n', "line variant ends with a newline");
    end = out_n - 1;
  }
  size_t i = 0;
  _Bool neg = 0;
  if (out[0] == '-') { neg = 1; i = 1; }
  __CPROVER_assert(neg == (v < 0), "minus sign iff negative");
  __CPROVER_assert(end > i, "at least one digit");
  __CPROVER_assert(end - i <= 20, "at most 20 digits");
  if (end - i > 1) __CPROVER_assert(out[i] != '0', "no leading zero");
  uint64_t acc = 0;
  for (size_t k = 0; k < 20; k++) {
    if (i + k < end) {
      char c = out[i + k];
      __CPROVER_assert(c >= '0' && c <= '9', "only decimal digits");
      acc = acc * 10u + (uint64_t)(c - '0');
    }
  }
  uint64_t mag = v < 0 ? (uint64_t)0 - (uint64_t)v : (uint64_t)v;
  __CPROVER_assert(acc == mag, "digits denote the magnitude of the value");
  return 0;
}
